//! The simulated application's own `Storage` implementation plus its
//! state machine (a hash chain). One `StoreCore` value is used twice per node:
//! as the *cache* raft reads through `SimStore` and as the durable *disk image*.

use std::cell::RefCell;
use std::rc::Rc;

use raft::eraftpb::{ConfState, Entry, HardState, Snapshot};
use raft::{Error, GetEntriesContext, RaftState, Result, Storage, StorageError};

/// FNV-1a style 64-bit mixing; deterministic, no external state.
pub fn mix(mut h: u64, bytes: &[u8]) -> u64 {
    for b in bytes {
        h ^= *b as u64;
        h = h.wrapping_mul(0x100000001b3);
    }
    h
}

pub fn mix_u64(h: u64, v: u64) -> u64 {
    mix(h, &v.to_le_bytes())
}

/// Hash of an entry's payload (type, data, context) - not its term/index.
pub fn entry_hash(e: &Entry) -> u64 {
    let mut h = 0xcbf29ce484222325u64;
    h = mix_u64(h, e.get_entry_type() as u64);
    h = mix_u64(h, e.data.len() as u64);
    h = mix(h, &e.data);
    h = mix(h, &e.context);
    h
}

/// Next state digest after applying an entry (index, payload hash). Term is
/// included: an entry is (term, type, payload).
pub fn digest_step(prev: u64, index: u64, term: u64, eh: u64) -> u64 {
    let mut h = mix_u64(prev ^ 0x9e3779b97f4a7c15, index);
    h = mix_u64(h, term);
    mix_u64(h, eh)
}

pub const GENESIS_DIGEST: u64 = 0x5eed_5eed_5eed_5eed;

/// Application state machine state.
#[derive(Clone, Debug, PartialEq)]
pub struct AppState {
    pub applied: u64,
    pub digest: u64,
    pub conf: ConfState,
}

#[derive(Clone, Debug)]
pub struct StoreCore {
    /// truncated index / term ("dummy entry"); entries start at snap_index+1
    pub snap_index: u64,
    pub snap_term: u64,
    pub entries: Vec<Entry>,
    pub hs: HardState,
    /// configuration as of `app.applied` (what `initial_state` reports)
    pub app: AppState,
    /// one-shot: next `snapshot()` fails temporarily
    pub snap_unavailable: bool,
    /// count of snapshot() calls (statistics)
    pub snapshots_served: u64,
    /// number of upcoming reads with an async-capable context that are answered with
    /// `LogTemporarilyUnavailable` (the application fetches them in the background)
    pub fetch_unavailable: u8,
    /// contexts of refused reads, to be handed to `RawNode::on_entries_fetched`
    pub pending_fetch: Vec<GetEntriesContext>,
}

impl StoreCore {
    pub fn empty() -> StoreCore {
        StoreCore {
            snap_index: 0,
            snap_term: 0,
            entries: vec![],
            hs: HardState::default(),
            app: AppState {
                applied: 0,
                digest: GENESIS_DIGEST,
                conf: ConfState::default(),
            },
            snap_unavailable: false,
            snapshots_served: 0,
            fetch_unavailable: 0,
            pending_fetch: vec![],
        }
    }

    /// Bootstrap at a snapshot point shared by all initial members.
    pub fn bootstrap(index: u64, term: u64, cs: ConfState) -> StoreCore {
        let mut hs = HardState::default();
        hs.commit = index;
        hs.term = term;
        StoreCore {
            snap_index: index,
            snap_term: term,
            entries: vec![],
            hs,
            app: AppState {
                applied: index,
                digest: GENESIS_DIGEST,
                conf: cs,
            },
            snap_unavailable: false,
            snapshots_served: 0,
            fetch_unavailable: 0,
            pending_fetch: vec![],
        }
    }

    pub fn first_index(&self) -> u64 {
        self.snap_index + 1
    }

    pub fn last_index(&self) -> u64 {
        self.snap_index + self.entries.len() as u64
    }

    pub fn term_of(&self, idx: u64) -> Option<u64> {
        if idx == self.snap_index {
            return Some(self.snap_term);
        }
        if idx < self.snap_index || idx > self.last_index() {
            return None;
        }
        Some(self.entries[(idx - self.snap_index - 1) as usize].term)
    }

    pub fn entry_at(&self, idx: u64) -> Option<&Entry> {
        if idx <= self.snap_index || idx > self.last_index() {
            return None;
        }
        Some(&self.entries[(idx - self.snap_index - 1) as usize])
    }

    /// Append with overwrite (what an application does with Ready::entries).
    /// Returns Err(description) when the write violates the storage preconditions
    /// (gap or below the compaction point) - that would be a library defect.
    pub fn append(&mut self, ents: &[Entry]) -> std::result::Result<(), String> {
        if ents.is_empty() {
            return Ok(());
        }
        let first = ents[0].index;
        if first <= self.snap_index {
            return Err(format!(
                "entries to persist start at {} which is at or below the compacted index {}",
                first, self.snap_index
            ));
        }
        if first > self.last_index() + 1 {
            return Err(format!(
                "entries to persist start at {} leaving a gap after stored last index {}",
                first,
                self.last_index()
            ));
        }
        for (k, e) in ents.iter().enumerate() {
            if e.index != first + k as u64 {
                return Err(format!("entries to persist not contiguous at position {}", k));
            }
        }
        self.entries.truncate((first - self.snap_index - 1) as usize);
        self.entries.extend_from_slice(ents);
        Ok(())
    }

    /// Install a snapshot: log is replaced by the snapshot point; application
    /// state is replaced by the snapshot's state.
    pub fn install_snapshot(&mut self, snap: &Snapshot) -> std::result::Result<(), String> {
        let meta = snap.get_metadata();
        if meta.index < self.snap_index {
            return Err(format!(
                "snapshot {} older than compaction point {}",
                meta.index, self.snap_index
            ));
        }
        let (idx, digest) = decode_snap_data(&snap.data)
            .ok_or_else(|| "snapshot data not produced by the simulated application".to_string())?;
        if idx != meta.index {
            return Err(format!(
                "snapshot data is for index {} but metadata says {}",
                idx, meta.index
            ));
        }
        self.snap_index = meta.index;
        self.snap_term = meta.term;
        self.entries.clear();
        if self.hs.commit < meta.index {
            self.hs.commit = meta.index;
        }
        if self.hs.term < meta.term {
            // never the case for a snapshot received in a message of the current term
            self.hs.term = meta.term;
        }
        self.app = AppState {
            applied: meta.index,
            digest,
            conf: meta.get_conf_state().clone(),
        };
        Ok(())
    }

    /// Compact the log up to and including `to` (requires to <= applied).
    pub fn compact(&mut self, to: u64) {
        if to <= self.snap_index || to > self.last_index() || to > self.app.applied {
            return;
        }
        let t = self.term_of(to).unwrap();
        let drop = (to - self.snap_index) as usize;
        self.entries.drain(..drop);
        self.snap_index = to;
        self.snap_term = t;
    }

    pub fn make_snapshot(&self) -> Option<Snapshot> {
        let idx = self.app.applied;
        let term = self.term_of(idx)?;
        let mut s = Snapshot::default();
        s.data = encode_snap_data(idx, self.app.digest).into();
        let m = s.mut_metadata();
        m.index = idx;
        m.term = term;
        m.set_conf_state(self.app.conf.clone());
        Some(s)
    }
}

pub fn encode_snap_data(index: u64, digest: u64) -> Vec<u8> {
    let mut v = Vec::with_capacity(16);
    v.extend_from_slice(&index.to_le_bytes());
    v.extend_from_slice(&digest.to_le_bytes());
    v
}

pub fn decode_snap_data(d: &[u8]) -> Option<(u64, u64)> {
    if d.len() != 16 {
        return None;
    }
    let mut a = [0u8; 8];
    let mut b = [0u8; 8];
    a.copy_from_slice(&d[..8]);
    b.copy_from_slice(&d[8..]);
    Some((u64::from_le_bytes(a), u64::from_le_bytes(b)))
}

/// Handle through which raft reads the cache copy.
#[derive(Clone)]
pub struct SimStore(pub Rc<RefCell<StoreCore>>);

impl SimStore {
    pub fn new(core: StoreCore) -> SimStore {
        SimStore(Rc::new(RefCell::new(core)))
    }
}

impl Storage for SimStore {
    fn initial_state(&self) -> Result<RaftState> {
        let c = self.0.borrow();
        Ok(RaftState {
            hard_state: c.hs.clone(),
            conf_state: c.app.conf.clone(),
        })
    }

    fn entries(
        &self,
        low: u64,
        high: u64,
        max_size: impl Into<Option<u64>>,
        context: GetEntriesContext,
    ) -> Result<Vec<Entry>> {
        let max_size = max_size.into();
        {
            let mut c = self.0.borrow_mut();
            if low <= c.snap_index {
                return Err(Error::Store(StorageError::Compacted));
            }
            if high > c.last_index() + 1 {
                panic!(
                    "SimStore: index out of bound (last: {}, high: {})",
                    c.last_index() + 1,
                    high
                );
            }
            if c.fetch_unavailable > 0 && context.can_async() && low < high {
                c.fetch_unavailable -= 1;
                if c.pending_fetch.len() < 32 {
                    c.pending_fetch.push(context);
                }
                return Err(Error::Store(StorageError::LogTemporarilyUnavailable));
            }
        }
        let c = self.0.borrow();
        let lo = (low - c.snap_index - 1) as usize;
        let hi = (high - c.snap_index - 1) as usize;
        let mut ents = c.entries[lo..hi].to_vec();
        raft::util::limit_size(&mut ents, max_size);
        Ok(ents)
    }

    fn term(&self, idx: u64) -> Result<u64> {
        let c = self.0.borrow();
        if idx == c.snap_index {
            return Ok(c.snap_term);
        }
        if idx < c.snap_index {
            return Err(Error::Store(StorageError::Compacted));
        }
        if idx > c.last_index() {
            return Err(Error::Store(StorageError::Unavailable));
        }
        Ok(c.entries[(idx - c.snap_index - 1) as usize].term)
    }

    fn first_index(&self) -> Result<u64> {
        Ok(self.0.borrow().first_index())
    }

    fn last_index(&self) -> Result<u64> {
        Ok(self.0.borrow().last_index())
    }

    fn snapshot(&self, request_index: u64, _to: u64) -> Result<Snapshot> {
        let mut c = self.0.borrow_mut();
        if c.snap_unavailable {
            c.snap_unavailable = false;
            return Err(Error::Store(StorageError::SnapshotTemporarilyUnavailable));
        }
        if c.app.applied < request_index || c.app.applied == 0 {
            return Err(Error::Store(StorageError::SnapshotTemporarilyUnavailable));
        }
        match c.make_snapshot() {
            Some(s) => {
                c.snapshots_served += 1;
                Ok(s)
            }
            None => Err(Error::Store(StorageError::SnapshotTemporarilyUnavailable)),
        }
    }
}
