use std::sync::Arc;

use vengine::profiles::spec_for;
use vengine::runner::*;

fn arg_val(args: &[String], name: &str) -> Option<String> {
    args.iter().position(|a| a == name).and_then(|i| args.get(i + 1).cloned())
}

fn main() {
    let args: Vec<String> = std::env::args().collect();
    if args.len() < 2 {
        eprintln!("usage: vcheck <ID> [--tier quick|thorough] [--seed N] [--replay file] [--cases N] [--workers N]");
        std::process::exit(2);
    }
    let id = args[1].clone();
    let tier = arg_val(&args, "--tier").or_else(|| std::env::var("VERIF_TIER").ok()).unwrap_or_else(|| "quick".into());
    let seed: u64 = arg_val(&args, "--seed")
        .or_else(|| std::env::var("VERIF_SEED").ok())
        .and_then(|s| s.parse().ok())
        .unwrap_or(0);
    // watchdog: a hang is an infrastructure problem (exit 2), never a violation
    let limit_s: u64 = std::env::var("VERIF_WATCHDOG_S").ok().and_then(|s| s.parse().ok()).unwrap_or(if tier == "thorough" { 3 * 3600 } else { 1200 });
    std::thread::spawn(move || {
        std::thread::sleep(std::time::Duration::from_secs(limit_s));
        println!("INCONCLUSIVE: watchdog after {} s", limit_s);
        std::process::exit(2);
    });
    let code = match id.as_str() {
        "C11" | "C12" | "C14" | "C18" | "C19" => comp_check(&id, &tier, seed, &args),
        _ => sim_check(&id, &tier, seed, &args),
    };
    std::process::exit(code);
}

fn set_guard_for_rejudge(on: bool) {
    vengine::world::set_guard(on);
}

fn comp_check(id: &str, tier: &str, seed: u64, args: &[String]) -> i32 {
    use vengine::comp::*;
    let spec = comp_spec(id).unwrap();
    if let Some(path) = arg_val(args, "--replay") {
        let text = match std::fs::read_to_string(&path) {
            Ok(t) => t,
            Err(e) => {
                eprintln!("{}: {}", path, e);
                return 2;
            }
        };
        let v: serde_json::Value = match serde_json::from_str(&text) {
            Ok(v) => v,
            Err(e) => {
                eprintln!("{}: {}", path, e);
                return 2;
            }
        };
        return match replay_comp(id, &v["case"]) {
            Ok(()) => {
                println!("replay: property held");
                0
            }
            Err(e) => {
                println!("replay: {}", e);
                println!("VIOLATION property={} replay={}", id, path);
                1
            }
        };
    }
    // saved regressions
    let mut regressions = 0;
    if let Ok(rd) = std::fs::read_dir(format!("/verif/regressions/{}", id)) {
        let mut files: Vec<_> = rd.filter_map(|e| e.ok()).map(|e| e.path()).filter(|p| p.extension().map_or(false, |x| x == "json")).collect();
        files.sort();
        for p in files {
            let ps = p.to_string_lossy().to_string();
            if let Ok(t) = std::fs::read_to_string(&p) {
                if let Ok(v) = serde_json::from_str::<serde_json::Value>(&t) {
                    regressions += 1;
                    if let Err(e) = replay_comp(id, &v["case"]) {
                        println!("regression {}: {}", ps, e);
                        println!("VIOLATION property={} replay={}", id, ps);
                        return 1;
                    }
                }
            }
        }
    }
    let thorough = tier == "thorough";
    let cases: u32 = arg_val(args, "--cases").and_then(|s| s.parse().ok()).unwrap_or(if thorough { spec.thorough } else { spec.quick });
    let workers: usize = arg_val(args, "--workers").and_then(|s| s.parse().ok()).unwrap_or(if thorough { 16 } else { 8 });
    let out = run_comp(id, cases, seed, workers, thorough).unwrap();
    let mut out = out;
    let mut fuzz_info = serde_json::json!({"ran": false});
    if thorough && out.failure.is_none() && std::env::var_os("VERIF_NO_FUZZ").is_none() {
        let runs: u64 = arg_val(args, "--fuzz-runs").and_then(|s| s.parse().ok()).unwrap_or(match id {
            "C14" => 300_000,
            "C12" | "C19" => 600_000,
            _ => 2_000_000,
        });
        let fz = vengine::runner::fuzz_stage("fz_comp", id, runs, seed, &[], 4096, workers);
        for a in &fz.artifacts {
            if let Ok(bytes) = std::fs::read(a) {
                crate::set_guard_for_rejudge(true);
                let r = std::panic::catch_unwind(|| rejudge_fuzz_bytes(id, &bytes));
                crate::set_guard_for_rejudge(false);
                match r {
                    Ok(Some((case, why))) => {
                        out.failure = Some((why, case));
                        break;
                    }
                    Ok(None) => {}
                    Err(_) => {
                        out.failure = Some((format!("panic while re-running fuzz artifact {:?}", a), serde_json::json!(null)));
                        break;
                    }
                }
            }
        }
        fuzz_info = serde_json::json!({"ran": fz.ran, "target": "fz_comp", "runs": fz.runs, "artifacts": fz.artifacts.len(), "wall_s": fz.wall_s, "note": fz.note});
        println!("{} fuzz stage: {} runs, {} artifacts ({})", id, fz.runs, fz.artifacts.len(), fz.note);
    }
    let samples = if out.samples.is_empty() { vec![serde_json::json!("no non-trivial case in this run")] } else { out.samples.clone() };
    let ev = serde_json::json!({
        "property_id": id, "tier": tier, "seed": seed, "level": "exploration",
        "coverage": {
            "evaluations": out.evaluations,
            "distinct_nontrivial": out.nontrivial,
            "rule": spec.rule,
            "samples": samples,
            "regressions_replayed": regressions,
            "workers": workers,
            "fuzz_stage": fuzz_info,
        },
        "assumptions": [
            "the reference model in engine/src/comp_*.rs is correct (it is small and written from the documented semantics)",
            "operations whose documented contract is a panic are not generated",
            "C14 runs RaftLog over SimStore, the simulator's conforming Storage implementation",
        ],
        "wall_s": out.wall_s,
        "violations": if out.failure.is_some() { 1 } else { 0 },
    });
    let _ = std::fs::create_dir_all("/verif/evidence");
    let _ = std::fs::write(format!("/verif/evidence/{}.json", id), serde_json::to_string_pretty(&ev).unwrap());
    println!("{} {}: {} cases, {} distinct non-trivial, {:.1}s", id, tier, out.evaluations, out.nontrivial, out.wall_s);
    if let Some((why, case)) = out.failure {
        let _ = std::fs::create_dir_all("/verif/replays");
        let h = vengine::store::mix(0xcbf29ce484222325, case.to_string().as_bytes());
        let path = format!("/verif/replays/{}-{:016x}.json", id, h);
        let j = serde_json::json!({"property": id, "tier": tier, "seed": seed, "violation": why, "case": case});
        let _ = std::fs::write(&path, serde_json::to_string_pretty(&j).unwrap());
        println!("{}", why);
        println!("VIOLATION property={} replay={}", id, path);
        return 1;
    }
    0
}

fn sim_check(id: &str, tier: &str, seed: u64, args: &[String]) -> i32 {
    let spec = match spec_for(id) {
        Some(s) => s,
        None => {
            eprintln!("unknown property {}", id);
            return 2;
        }
    };
    let mut spec = spec;
    if let Some(o) = arg_val(args, "--add-options").and_then(|s| s.parse::<u32>().ok()) {
        spec.options |= o;
    }
    if let Some(o) = arg_val(args, "--del-options").and_then(|s| s.parse::<u32>().ok()) {
        spec.options &= !o;
    }
    let known = known_for(id);
    let eval = Arc::new(default_eval(&spec));
    let is_c20 = spec.monitors & vengine::mon::P20 != 0;
    if let Some(path) = arg_val(args, "--replay") {
        let (case, meta) = match load_replay(&path) {
            Ok(x) => x,
            Err(e) => {
                eprintln!("{}", e);
                return 2;
            }
        };
        // a case found by the exclusions-off campaign replays with the options it was found with
        let eval = match meta["options"].as_u64() {
            Some(o) if o as u32 != spec.options && arg_val(args, "--add-options").is_none() && arg_val(args, "--del-options").is_none() => {
                let mut s2 = spec_for(id).unwrap();
                s2.options = o as u32;
                Arc::new(default_eval(&s2))
            }
            _ => eval,
        };
        let out = eval(&case, true);
        if arg_val(args, "--trace").is_some() || args.iter().any(|a| a == "-v") {
            for l in out.trace.as_ref().unwrap() {
                println!("{}", l);
            }
        }
        return match judge(id, is_c20, &out, &known) {
            Verdict::Fail(v, sig) => {
                println!("replay: {}/{} at op {}: {}", v.property, v.monitor, v.op_index, v.detail);
                println!("signature: {}", sig);
                println!("VIOLATION property={} replay={}", id, path);
                1
            }
            Verdict::Known(sig) => {
                println!("KNOWN-FINDING: property={} {}", id, sig);
                0
            }
            Verdict::DiscardPanic(sig) => {
                println!("replay: discarded (panic belongs to C20): {}", sig);
                0
            }
            Verdict::Pass => {
                println!("replay: property held");
                0
            }
        };
    }
    // saved regressions first (plain replays, no generator involved)
    let mut regressions_replayed = 0;
    if let Ok(rd) = std::fs::read_dir(format!("/verif/regressions/{}", id)) {
        let mut files: Vec<_> = rd.filter_map(|e| e.ok()).map(|e| e.path()).filter(|p| p.extension().map_or(false, |x| x == "json")).collect();
        files.sort();
        for p in files {
            let ps = p.to_string_lossy().to_string();
            if let Ok((case, _)) = load_replay(&ps) {
                regressions_replayed += 1;
                let out = eval(&case, false);
                if let Verdict::Fail(v, sig) = judge(id, is_c20, &out, &known) {
                    println!("regression {}: {}/{}: {}", ps, v.property, v.monitor, v.detail);
                    println!("signature: {}", sig);
                    println!("VIOLATION property={} replay={}", id, ps);
                    return 1;
                }
            }
        }
    }
    let thorough = tier == "thorough";
    let cases: u32 = arg_val(args, "--cases").and_then(|s| s.parse().ok()).unwrap_or(if thorough { spec.thorough_cases } else { spec.quick_cases });
    let workers: usize = arg_val(args, "--workers").and_then(|s| s.parse().ok()).unwrap_or(if thorough { 16 } else { 8 });
    let ops = if thorough { spec.ops_thorough } else { spec.ops_quick };
    let out = run_campaign(&spec, eval.clone(), &known, cases, ops, seed, workers);
    let violations = if out.failure.is_some() { 1 } else { 0 };
    let spec_options = spec.options;

    println!(
        "{} {}: {} cases, {} distinct non-trivial, {} discarded (panic), {:.1}s",
        id, tier, out.acc.evaluations, out.acc.nontrivial.len(), out.acc.discarded_panics, out.wall_s
    );
    // ---- thorough tier: coverage-guided stage on the same interpreter (libFuzzer, fixed number of runs)
    let mut fuzz_info = serde_json::json!({"ran": false});
    let mut failure_from_fuzz: Option<Failure> = None;
    if thorough && out.failure.is_none() && std::env::var_os("VERIF_NO_FUZZ").is_none() {
        let runs: u64 = arg_val(args, "--fuzz-runs").and_then(|s| s.parse().ok()).unwrap_or(48_000);
        let fz = fuzz_stage("fz_cluster", id, runs, seed, &out.acc.seed_inputs, 40 + 6 * ops.1.min(220), workers);
        let mut rejudged = 0;
        for a in &fz.artifacts {
            if let Ok(bytes) = std::fs::read(a) {
                let raw = vengine::case::RawCase::from_bytes(&bytes);
                let case = spec.profile.decode(&raw);
                let o = eval(&case, false);
                rejudged += 1;
                if let Verdict::Fail(v, sig) = judge(id, is_c20, &o, &known) {
                    let (case, v) = ddmin(id, is_c20, &**eval, &known, case, v, &sig);
                    failure_from_fuzz = Some(Failure { case, raw, violation: v, sig });
                    break;
                }
            }
        }
        fuzz_info = serde_json::json!({"ran": fz.ran, "target": "fz_cluster", "runs": fz.runs, "seed_corpus": out.acc.seed_inputs.len(), "artifacts": fz.artifacts.len(), "artifacts_rejudged": rejudged, "wall_s": fz.wall_s, "note": fz.note});
        println!("{} fuzz stage: {} runs, {} artifacts ({})", id, fz.runs, fz.artifacts.len(), fz.note);
    }
    // Known findings whose trigger the main campaign excludes by construction are
    // reproduced by a second small campaign with the exclusion switched off.
    let mut replay_options = spec.options;
    let mut failure = out.failure;
    if failure.is_none() {
        failure = failure_from_fuzz;
    }
    let mut known_seen = out.acc.known_hits.clone();
    if failure.is_none() {
        if let Some(ro) = spec.repro_options {
            if !known.is_empty() {
                let mut spec2 = spec_for(id).unwrap();
                spec2.options |= ro;
                let eval2 = Arc::new(default_eval(&spec2));
                let out2 = run_campaign(&spec2, eval2, &known, cases / 4 + 1, ops, seed ^ 0x5151, workers);
                for (sig, n) in &out2.acc.known_hits {
                    *known_seen.entry(sig.clone()).or_insert(0) += n;
                }
                println!("{} repro campaign (exclusions off): {} cases, known-finding hits {:?}", id, out2.acc.evaluations, out2.acc.known_hits);
                failure = out2.failure;
                if failure.is_some() {
                    replay_options = spec2.options;
                }
            }
        }
    }
    // saved reproductions of the listed findings (deterministic; exclusions off)
    if failure.is_none() {
        for k in &known {
            if let Some(rp) = &k.replay {
                if let Ok((case, meta)) = load_replay(rp) {
                    let mut spec3 = spec_for(id).unwrap();
                    // a saved reproduction runs with the options it was recorded with
                    spec3.options = match meta["options"].as_u64() {
                        Some(o) => o as u32,
                        None => spec_options | spec.repro_options.unwrap_or(0),
                    };
                    let o = default_eval(&spec3)(&case, false);
                    match judge(id, is_c20, &o, &known) {
                        Verdict::Known(sig) if sig == k.signature || o.violations.iter().any(|v| format!("{}/{}", v.property, v.monitor) == k.signature) => {
                            let _ = sig;
                            *known_seen.entry(k.signature.clone()).or_insert(0) += 1;
                        }
                        Verdict::Fail(v, sig) => {
                            println!("replay of listed finding {} now fails differently: {}/{}: {}", k.id, v.property, v.monitor, v.detail);
                            println!("signature: {}", sig);
                            println!("VIOLATION property={} replay={}", id, rp);
                            return 1;
                        }
                        _ => {}
                    }
                }
            }
        }
    }
    {
        let violations = if failure.is_some() { 1 } else { violations };
        let t_total = out.wall_s + fuzz_info["wall_s"].as_f64().unwrap_or(0.0);
        let ev = evidence_json(id, tier, seed, spec.rule, &out.acc, t_total, violations, serde_json::json!({"profile": spec.profile.name, "workers": workers, "regressions_replayed": regressions_replayed, "fuzz_stage": fuzz_info}));
        let _ = std::fs::create_dir_all("/verif/evidence");
        let _ = std::fs::write(format!("/verif/evidence/{}.json", id), serde_json::to_string_pretty(&ev).unwrap());
    }
    for k in &known {
        if let Some(n) = known_seen.get(&k.signature) {
            println!("KNOWN-FINDING: property={} {} [{}] reproduced in {} cases: {}", id, k.id, k.signature, n, k.what);
        }
    }
    if let Some(f) = &failure {
        let path = write_replay("/verif/replays", id, tier, seed, f, spec.profile.name, replay_options);
        println!("{}/{} at op {}: {}", f.violation.property, f.violation.monitor, f.violation.op_index, f.violation.detail);
        println!("signature: {}", f.sig);
        println!("VIOLATION property={} replay={}", id, path);
        return 1;
    }
    if out.acc.discarded_panics * 2 > out.acc.evaluations {
        println!("INCONCLUSIVE: more than half of the cases were discarded because a library call panicked");
        return 2;
    }
    0
}
