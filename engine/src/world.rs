//! The simulated world: nodes (RawNode + cache + disk + application), network,
//! clock, and the interpreter that executes a `Case` against them while the
//! monitors of `mon` watch every library call.

use std::cell::RefCell;
use std::collections::VecDeque;
use std::panic::{catch_unwind, AssertUnwindSafe};
use std::rc::Rc;

use protobuf::Message as PbMessage;
use raft::eraftpb::{
    ConfChange, ConfChangeSingle, ConfChangeTransition, ConfChangeType, ConfChangeV2, ConfState,
    Entry, EntryType, HardState, Message, MessageType, Snapshot,
};
use raft::{Config, RawNode, ReadOnlyOption, SnapshotStatus, StateRole};

use crate::case::*;
use crate::mon::{Mon, Violation};
use crate::obs::*;
use crate::store::*;

thread_local! {
    static LAST_PANIC: RefCell<Option<PanicInfo>> = const { RefCell::new(None) };
    static TIMEOUTS: RefCell<(Vec<u8>, usize, Vec<Option<usize>>)> = const { RefCell::new((Vec::new(), 0, Vec::new())) };
    static IN_GUARD: std::cell::Cell<bool> = const { std::cell::Cell::new(false) };
    static FAIR_TIMEOUTS: std::cell::Cell<bool> = const { std::cell::Cell::new(false) };
}

#[derive(Clone, Debug, serde::Serialize, serde::Deserialize)]
pub struct PanicInfo {
    pub file: String,
    pub line: u32,
    pub msg: String,
}

pub fn install_panic_hook() {
    use std::sync::Once;
    static ONCE: Once = Once::new();
    ONCE.call_once(|| {
        let prev = std::panic::take_hook();
        std::panic::set_hook(Box::new(move |info| {
            let (file, line) = info
                .location()
                .map(|l| (l.file().to_string(), l.line()))
                .unwrap_or_default();
            let msg = if let Some(s) = info.payload().downcast_ref::<&str>() {
                s.to_string()
            } else if let Some(s) = info.payload().downcast_ref::<String>() {
                s.clone()
            } else {
                "<non-string panic>".to_string()
            };
            let in_case = LAST_PANIC.with(|c| {
                let mut g = c.borrow_mut();
                if g.is_none() {
                    *g = Some(PanicInfo { file: file.clone(), line, msg: msg.clone() });
                }
                true
            });
            let guarded = IN_GUARD.with(|g| g.get());
            if !in_case || !guarded || std::env::var_os("VERIF_PANIC_VERBOSE").is_some() {
                prev(info);
            }
        }));
    });
}

pub fn set_guard(on: bool) {
    IN_GUARD.with(|g| g.set(on));
}

pub fn take_panic_pub() -> Option<PanicInfo> {
    take_panic()
}

fn take_panic() -> Option<PanicInfo> {
    LAST_PANIC.with(|c| c.borrow_mut().take())
}

/// Installs the election-timeout provider (hook H4) for this thread.
pub fn set_fair_timeouts(on: bool) {
    FAIR_TIMEOUTS.with(|f| f.set(on));
}

fn install_timeouts(pool: &[u8]) {
    set_fair_timeouts(false);
    TIMEOUTS.with(|t| {
        let mut g = t.borrow_mut();
        g.0 = pool.to_vec();
        g.1 = 0;
        g.2 = vec![None; NN + 1];
    });
    raft::verif_export::set_election_timeout_provider(Some(Box::new(|id, min, max| {
        TIMEOUTS.with(|t| {
            let mut g = t.borrow_mut();
            if let Some(Some(fixed)) = g.2.get(id as usize) {
                let v = min + (*fixed % (max - min));
                return Some(v);
            }
            if g.0.is_empty() {
                return None;
            }
            let i = g.1;
            g.1 += 1;
            if FAIR_TIMEOUTS.with(|f| f.get()) {
                // fair suffix: a deterministic pseudo-random draw per call (breaks symmetric timeouts)
                // (splitmix64 finaliser: every output bit depends on every input bit)
                let mut h = (i as u64).wrapping_mul(0x9e3779b97f4a7c15) ^ id.wrapping_mul(0xbf58476d1ce4e5b9);
                h = (h ^ (h >> 30)).wrapping_mul(0xbf58476d1ce4e5b9);
                h = (h ^ (h >> 27)).wrapping_mul(0x94d049bb133111eb);
                h ^= h >> 31;
                return Some(min + (h >> 33) as usize % (max - min));
            }
            let b = g.0[i % g.0.len()] as usize;
            // mix the counter in so that a short pool does not cycle identically
            let v = min + (b.wrapping_add(i / g.0.len() * 7)) % (max - min);
            Some(v)
        })
    })));
}

/// Pins node `id`'s election timeout offset (used by fair suffixes).
pub fn pin_timeout(id: u64, off: Option<usize>) {
    TIMEOUTS.with(|t| {
        let mut g = t.borrow_mut();
        if (id as usize) < g.2.len() {
            g.2[id as usize] = off;
        }
    });
}

#[derive(Clone, Debug)]
pub enum CallKind {
    New,
    Step(Message),
    Tick,
    Ready,
    AdvanceAppend,
    Advance,
    AdvanceAsync,
    OnPersist(u64),
    AdvanceApply(u64),
    Propose { len: usize },
    ProposeConf(CcSpec),
    /// ids that the change removes and adds again (their Progress is re-created)
    ApplyConf(Vec<u64>),
    ReadIndex(Vec<u8>),
    Transfer(u64),
    Campaign,
    ReportSnapshot(u64, bool),
    ReportUnreachable(u64),
    RequestSnapshot,
    Knob,
    Ping,
    StepLocal(MessageType),
    ProposeBatch(Vec<Option<CcSpec>>),
    Fetched,
}

impl CallKind {
    pub fn name(&self) -> &'static str {
        match self {
            CallKind::New => "new",
            CallKind::Step(_) => "step",
            CallKind::Tick => "tick",
            CallKind::Ready => "ready",
            CallKind::AdvanceAppend => "advance_append",
            CallKind::Advance => "advance",
            CallKind::AdvanceAsync => "advance_append_async",
            CallKind::OnPersist(_) => "on_persist_ready",
            CallKind::AdvanceApply(_) => "advance_apply_to",
            CallKind::Propose { .. } => "propose",
            CallKind::ProposeConf(_) => "propose_conf_change",
            CallKind::ApplyConf(_) => "apply_conf_change",
            CallKind::ReadIndex(_) => "read_index",
            CallKind::Transfer(_) => "transfer_leader",
            CallKind::Campaign => "campaign",
            CallKind::ReportSnapshot(..) => "report_snapshot",
            CallKind::ReportUnreachable(_) => "report_unreachable",
            CallKind::RequestSnapshot => "request_snapshot",
            CallKind::Knob => "knob",
            CallKind::Ping => "ping",
            CallKind::StepLocal(_) => "step(local)",
            CallKind::ProposeBatch(_) => "step(MsgPropose batch)",
            CallKind::Fetched => "on_entries_fetched",
        }
    }
}

pub struct Batch {
    pub number: u64,
    pub snapshot: Option<Snapshot>,
    pub entries: Vec<Entry>,
    pub hs: Option<HardState>,
    pub must_sync: bool,
    pub msgs: Vec<(Message, MsgMeta)>,
}

pub struct Node {
    pub id: u64,
    pub rn: Option<RawNode<SimStore>>,
    pub cache: SimStore,
    pub disk: StoreCore,
    pub cfg: NodeCfg,
    pub batches: VecDeque<Batch>,
    pub to_apply: VecDeque<Entry>,
    pub incarnation: u32,
    /// metadata aligned with raft.msgs
    pub pending_meta: Vec<MsgMeta>,
    /// the application destroyed this peer after it applied its own removal
    pub destroyed: bool,
    pub ever_started: bool,
}

impl Node {
    pub fn up(&self) -> bool {
        self.rn.is_some()
    }
}

#[derive(Default, Clone, Debug, serde::Serialize)]
pub struct CaseStats {
    pub ops: u32,
    pub noops: u32,
    pub lib_calls: u32,
    pub delivered: u32,
    pub dropped: u32,
    pub net_overflow: u32,
    pub crashes: u32,
    pub crashes_lost_data: u32,
    pub fetches_completed: u32,
    pub fetches_sent: u32,
    pub restarts: u32,
    pub proposals_ok: u32,
    pub proposals_dropped: u32,
    pub conf_proposed: u32,
    pub conf_applied: u32,
    pub conf_rejected_by_app: u32,
    pub snapshots_installed: u32,
    pub snapshots_sent: u32,
    pub compactions: u32,
    pub max_term: u64,
    pub max_commit: u64,
    pub leaders_seen: u32,
    pub truncations: u32,
    pub reads_issued: u32,
    pub reads_answered: u32,
    pub transfers: u32,
    pub joint_entered: u32,
    pub excluded_f3: u32,
    pub excluded_f11: u32,
    pub excluded_f1: u32,
    pub excluded_other: u32,
    pub async_batches: u32,
    pub fsync_lag_max: u32,
    pub flags: u64,
    pub liveness_rounds: u32,
    pub liveness_slow: u32,
    pub handoffs_completed: u32,
    pub mode1: u32,
    pub fallbacks: u32,
    pub noop_by_kind: [u32; NKINDS],
}

pub const STOP_REMOVED: u32 = 1;
pub const NO_F3_EXCLUSION: u32 = 2;
pub const EXCLUDE_F3: u32 = 32;
pub const EXCLUDE_F11: u32 = 64;
pub const NO_F11_EXCLUSION: u32 = 128;
pub const HOLD_F1: u32 = 4;
pub const NO_F8_EXCLUSION: u32 = 8;
pub const EXCLUDE_F8: u32 = 16;

pub struct World {
    pub sc: Scenario,
    pub nodes: Vec<Node>,
    pub net: VecDeque<(Message, MsgMeta)>,
    pub part: Option<u8>,
    pub mon: Mon,
    pub stats: CaseStats,
    pub panic: Option<(PanicInfo, String)>,
    pub dead: bool,
    pub op_index: usize,
    pub snap_reports: Vec<(u64, u64)>,
    pub serial: u64,
    pub proposal_ctr: u64,
    pub read_ctr: u64,
    pub logger: slog::Logger,
    pub options: u32,
    pub trace: Option<Vec<String>>,
    pub in_suffix: bool,
    /// structured scenarios address nodes exactly (no remapping onto eligible nodes)
    pub strict_nodes: bool,
}

fn cs_from(sc: &Scenario) -> ConfState {
    let mut cs = ConfState::default();
    cs.voters = sc.voters.clone();
    cs.learners = sc.learners.clone();
    cs.voters_outgoing = sc.outgoing.clone();
    cs.learners_next = sc.learners_next.clone();
    cs.auto_leave = sc.auto_leave;
    cs
}

impl World {
    pub fn new(sc: &Scenario, mon: Mon, options: u32) -> World {
        install_panic_hook();
        install_timeouts(&sc.timeouts);
        let _ = take_panic();
        let logger = slog::Logger::root(slog::Discard, slog::o!());
        let cs = cs_from(sc);
        let mut nodes = vec![];
        for i in 0..NN {
            let id = (i + 1) as u64;
            let member = sc.voters.contains(&id)
                || sc.learners.contains(&id)
                || sc.outgoing.contains(&id)
                || sc.learners_next.contains(&id);
            let core = if member {
                StoreCore::bootstrap(sc.s0, 1, cs.clone())
            } else {
                StoreCore::empty()
            };
            nodes.push(Node {
                id,
                rn: None,
                cache: SimStore::new(core.clone()),
                disk: core,
                cfg: sc.nodes[i].clone(),
                batches: VecDeque::new(),
                to_apply: VecDeque::new(),
                incarnation: 0,
                pending_meta: vec![],
                destroyed: false,
                ever_started: false,
            });
        }
        let mut stats0 = CaseStats::default();
        stats0.mode1 = sc.mode as u32;
        let mut w = World {
            sc: sc.clone(),
            nodes,
            net: VecDeque::new(),
            part: None,
            mon,
            stats: stats0,
            panic: None,
            dead: false,
            op_index: 0,
            snap_reports: vec![],
            serial: 0,
            proposal_ctr: 0,
            read_ctr: 0,
            logger,
            options,
            trace: None,
            in_suffix: false,
            strict_nodes: false,
        };
        w.mon.init(&w.sc);
        for i in 0..NN {
            w.start_node(i);
        }
        w
    }

    fn config_for(&self, ni: usize) -> Config {
        let n = &self.nodes[ni];
        let c = &n.cfg;
        Config {
            id: n.id,
            election_tick: self.sc.election_tick,
            heartbeat_tick: self.sc.heartbeat_tick,
            applied: n.disk.app.applied,
            max_size_per_msg: c.max_size_per_msg,
            max_inflight_msgs: c.max_inflight,
            check_quorum: self.sc.check_quorum,
            pre_vote: self.sc.pre_vote,
            min_election_tick: 0,
            max_election_tick: 0,
            read_only_option: if self.sc.lease_read {
                ReadOnlyOption::LeaseBased
            } else {
                ReadOnlyOption::Safe
            },
            skip_bcast_commit: c.skip_bcast_commit,
            batch_append: c.batch_append,
            priority: c.priority,
            max_uncommitted_size: c.max_uncommitted,
            max_committed_size_per_ready: c.max_committed_per_ready,
            max_apply_unpersisted_log_limit: c.apply_unpersisted,
            disable_proposal_forwarding: c.disable_fwd,
        }
    }

    /// (Re)start node from its disk image.
    pub(crate) fn start_node(&mut self, ni: usize) {
        if self.dead || self.nodes[ni].up() || self.nodes[ni].destroyed {
            return;
        }
        let cfg = self.config_for(ni);
        {
            let n = &mut self.nodes[ni];
            let mut core = n.disk.clone();
            if core.hs.commit < core.app.applied {
                core.hs.commit = core.app.applied;
            }
            core.fetch_unavailable = 0;
            core.pending_fetch.clear();
            n.cache = SimStore::new(core);
            n.batches.clear();
            n.to_apply.clear();
            n.pending_meta.clear();
            n.incarnation += 1;
        }
        let store = self.nodes[ni].cache.clone();
        let logger = self.logger.clone();
        IN_GUARD.with(|g| g.set(true));
        let r = catch_unwind(AssertUnwindSafe(|| RawNode::new(&cfg, store, &logger)));
        IN_GUARD.with(|g| g.set(false));
        self.stats.lib_calls += 1;
        match r {
            Ok(Ok(rn)) => {
                if let Some(t) = self.trace.as_mut() {
                    t.push(format!("  [{}] n{} START term={} commit={} conf={:?}", self.op_index, ni + 1, rn.raft.term, rn.raft.raft_log.committed, rn.raft.prs().conf().to_conf_state()));
                }
                self.nodes[ni].rn = Some(rn);
                let first = !self.nodes[ni].ever_started;
                self.nodes[ni].ever_started = true;
                let post = observe(self.nodes[ni].rn.as_ref().unwrap(), true);
                self.mon.on_start(ni, &post, &self.nodes, first, self.op_index);
            }
            Ok(Err(e)) => {
                self.mon.violation(
                    "C20",
                    "new-error",
                    format!("RawNode::new failed on node {}: {:?}", ni + 1, e),
                    self.op_index,
                );
                self.dead = true;
            }
            Err(_) => {
                let p = take_panic().unwrap_or(PanicInfo { file: "?".into(), line: 0, msg: "?".into() });
                self.panic = Some((p, format!("RawNode::new on node {}", ni + 1)));
                self.dead = true;
            }
        }
    }

    /// Wraps one library call: observes before/after, catches panics, runs monitors.
    pub fn call<R>(
        &mut self,
        ni: usize,
        kind: CallKind,
        f: impl FnOnce(&mut RawNode<SimStore>) -> R,
    ) -> Option<R> {
        if self.dead {
            return None;
        }
        let want_prs = self.mon.wants_prs();
        let pre = match self.nodes[ni].rn.as_ref() {
            Some(rn) => observe(rn, want_prs),
            None => return None,
        };
        self.stats.lib_calls += 1;
        let res = {
            let rn = self.nodes[ni].rn.as_mut().unwrap();
            IN_GUARD.with(|g| g.set(true));
            let r = catch_unwind(AssertUnwindSafe(|| f(rn)));
            IN_GUARD.with(|g| g.set(false));
            r
        };
        match res {
            Ok(r) => {
                let post = observe(self.nodes[ni].rn.as_ref().unwrap(), want_prs);
                self.record_new_msgs(ni, &kind, &pre);
                if post.term > self.stats.max_term {
                    self.stats.max_term = post.term;
                }
                if post.committed > self.stats.max_commit {
                    self.stats.max_commit = post.committed;
                }
                if post.role == StateRole::Leader && pre.role != StateRole::Leader {
                    self.stats.leaders_seen += 1;
                }
                if let Some(t) = self.trace.as_mut() {
                    let extra = match &kind {
                        CallKind::Step(m) => format!(" [{}]", msg_brief(m)),
                        CallKind::OnPersist(n) => format!(" ({})", n),
                        CallKind::AdvanceApply(n) => format!(" ({})", n),
                        CallKind::ApplyConf(_) => format!(" conf={:?}", post.conf),
                        _ => String::new(),
                    };
                    t.push(format!(
                        "  [{}] n{} {}{extra} -> role={:?} term={} vote={} commit={} applied={} persisted={} last={} msgs={}",
                        self.op_index, ni + 1, kind.name(), post.role, post.term, post.vote, post.committed,
                        post.applied, post.persisted, post.last_index, post.msgs_len
                    ));
                }
                self.mon.after_call(ni, &kind, &pre, &post, &self.nodes, self.op_index);
                Some(r)
            }
            Err(_) => {
                let p = take_panic().unwrap_or(PanicInfo { file: "?".into(), line: 0, msg: "?".into() });
                let ctx = format!(
                    "{} on node {} (role {:?}, term {}, commit {}, last {}, persisted {})",
                    kind.name(),
                    ni + 1,
                    pre.role,
                    pre.term,
                    pre.committed,
                    pre.last_index,
                    pre.persisted
                );
                self.panic = Some((p, ctx));
                self.dead = true;
                None
            }
        }
    }

    /// Keeps `pending_meta` aligned with `raft.msgs`, recording generation-time facts.
    fn record_new_msgs(&mut self, ni: usize, kind: &CallKind, pre: &NodeObs) {
        let inc = self.nodes[ni].incarnation;
        let have = self.nodes[ni].pending_meta.len();
        let rn = self.nodes[ni].rn.as_ref().unwrap();
        let msgs = &rn.raft.msgs;
        if msgs.len() < have {
            // drained by ready()/advance: the caller takes the metas
            return;
        }
        let mut new = vec![];
        for m in &msgs[have..] {
            self.serial += 1;
            let mut meta = MsgMeta { incarnation: inc, serial: self.serial, ..Default::default() };
            match m.get_msg_type() {
                MessageType::MsgAppendResponse if !m.reject => {
                    meta.gen_term_at_index = rn.raft.raft_log.term(m.index).ok();
                }
                MessageType::MsgRequestVoteResponse | MessageType::MsgRequestPreVoteResponse => {
                    meta.voter_last = Some((pre.last_term, pre.last_index));
                    if let CallKind::Step(req) = kind {
                        meta.cand_last = Some((req.log_term, req.index));
                    }
                }
                _ => {}
            }
            new.push((m.clone(), meta));
        }
        for (m, meta) in new {
            self.mon.on_new_msg(ni, &m, &meta, pre, self.op_index);
            self.nodes[ni].pending_meta.push(meta);
        }
    }

    pub(crate) fn take_metas(&mut self, ni: usize, n_msgs: usize) -> Vec<MsgMeta> {
        let inc = self.nodes[ni].incarnation;
        let mut metas = std::mem::take(&mut self.nodes[ni].pending_meta);
        metas.truncate(n_msgs);
        while metas.len() < n_msgs {
            self.serial += 1;
            metas.push(MsgMeta { incarnation: inc, serial: self.serial, ..Default::default() });
        }
        metas
    }

    // ------------------------------------------------------------------ network

    pub(crate) fn blocked(&self, from: u64, to: u64) -> bool {
        match self.part {
            None => false,
            Some(mask) => {
                let a = from >= 1 && from <= NN as u64 && (mask >> (from - 1)) & 1 == 1;
                let b = to >= 1 && to <= NN as u64 && (mask >> (to - 1)) & 1 == 1;
                a != b
            }
        }
    }

    /// A message leaves node `ni` (AC2): monitors judge it against the durable state.
    pub(crate) fn release(&mut self, ni: usize, msgs: Vec<Message>, metas: Vec<MsgMeta>) {
        for (m, meta) in msgs.into_iter().zip(metas.into_iter()) {
            self.mon.on_release(ni, &m, &meta, &self.nodes, self.op_index);
            if m.get_msg_type() == MessageType::MsgSnapshot {
                self.stats.snapshots_sent += 1;
                self.snap_reports.push((m.from, m.to));
            }
            if self.net.len() >= self.sc.net_cap {
                self.net.pop_front();
                self.stats.net_overflow += 1;
            }
            self.net.push_back((m, meta));
        }
    }

    pub(crate) fn deliver_msg(&mut self, m: Message, meta: MsgMeta) {
        let to = m.to;
        if to == 0 || to > NN as u64 {
            self.stats.dropped += 1;
            return;
        }
        let ni = (to - 1) as usize;
        if !self.nodes[ni].up() || self.blocked(m.from, to) {
            self.stats.dropped += 1;
            return;
        }
        if m.get_msg_type() == MessageType::MsgTimeoutNow && self.f3_trigger(ni) {
            self.stats.excluded_f3 += 1;
            return;
        }
        self.stats.delivered += 1;
        self.mon.before_deliver(ni, &m, &meta, &self.nodes, self.op_index);
        let mc = m.clone();
        let res = self.call(ni, CallKind::Step(mc), move |rn| rn.step(m));
        if let Some(r) = res {
            self.mon.on_step_result(ni, r.is_ok(), self.op_index);
        }
    }

    /// Former finding F3: a sole voter with an unpersisted tail campaigned and tripped
    /// become_leader's assertion. Was excluded by construction while the finding was open.
    pub(crate) fn f3_trigger(&self, ni: usize) -> bool {
        // F3 is repaired (see known_findings.json `fixed`): nothing is excluded any more unless asked for
        if self.options & EXCLUDE_F3 == 0 {
            return false;
        }
        match self.nodes[ni].rn.as_ref() {
            None => false,
            Some(rn) => {
                let r = &rn.raft;
                r.state != StateRole::Leader
                    && r.promotable()
                    && crate::obs::sole_voter(rn)
                    && (r.raft_log.persisted < r.raft_log.last_index() || !self.nodes[ni].batches.is_empty())
            }
        }
    }

    // ------------------------------------------------------------------ durable writes

    fn persist_batch_to_disk(&mut self, ni: usize, b: &Batch, lazy_hs: bool) {
        let n = &mut self.nodes[ni];
        if let Some(s) = &b.snapshot {
            if let Err(e) = n.disk.install_snapshot(s) {
                self.mon.violation("C07", "bad-snapshot-write", format!("node {}: {}", ni + 1, e), self.op_index);
            }
        }
        if let Err(e) = n.disk.append(&b.entries) {
            self.mon.violation("C07", "bad-entries-write", format!("node {} (disk): {}", ni + 1, e), self.op_index);
        }
        if let Some(hs) = &b.hs {
            if b.must_sync || !lazy_hs {
                let c = n.disk.hs.commit.max(hs.commit);
                n.disk.hs = hs.clone();
                n.disk.hs.commit = c.min(n.disk.last_index());
            }
        }
        self.mon.on_durable(ni, &self.nodes, self.op_index);
    }

    fn write_batch_to_cache(&mut self, ni: usize, b: &Batch) {
        let n = &mut self.nodes[ni];
        let mut c = n.cache.0.borrow_mut();
        if let Some(s) = &b.snapshot {
            if let Err(e) = c.install_snapshot(s) {
                drop(c);
                self.mon.violation("C07", "bad-snapshot-write", format!("node {}: {}", ni + 1, e), self.op_index);
                return;
            }
        }
        if let Err(e) = c.append(&b.entries) {
            drop(c);
            self.mon.violation("C07", "bad-entries-write", format!("node {}: {}", ni + 1, e), self.op_index);
            return;
        }
        if let Some(hs) = &b.hs {
            c.hs = hs.clone();
        }
    }

    // ------------------------------------------------------------------ apply

    fn decode_cc(e: &Entry) -> Option<ConfChangeV2> {
        match e.get_entry_type() {
            EntryType::EntryConfChange => {
                let mut cc = ConfChange::default();
                cc.merge_from_bytes(&e.data).ok()?;
                Some(raft_proto::ConfChangeI::into_v2(cc))
            }
            EntryType::EntryConfChangeV2 => {
                let mut cc = ConfChangeV2::default();
                cc.merge_from_bytes(&e.data).ok()?;
                Some(cc)
            }
            _ => None,
        }
    }

    /// Applies up to `count` handed-out entries on node ni. Returns number applied.
    pub(crate) fn apply_some(&mut self, ni: usize, count: usize, crash_after: Option<usize>) -> usize {
        let mut done = 0;
        while done < count {
            if self.dead || !self.nodes[ni].up() {
                break;
            }
            let e = match self.nodes[ni].to_apply.pop_front() {
                Some(e) => e,
                None => break,
            };
            let applied_before = self.nodes[ni].cache.0.borrow().app.applied;
            if e.index <= applied_before {
                // superseded by a snapshot the application already installed
                continue;
            }
            self.mon.on_apply(ni, &e, applied_before, &self.nodes, self.op_index);
            let mut new_conf: Option<ConfState> = None;
            // the node's raft may already have restored a snapshot at or beyond this entry (stepped MsgSnapshot
            // whose Ready the application has not reached yet): the entry is stale for the restored configuration
            let stale_conf_before: Option<ConfView> = self.nodes[ni].rn.as_ref().and_then(|rn| {
                if rn.raft.raft_log.first_index() > e.index {
                    Some(ConfView::from_cs(&rn.raft.prs().conf().to_conf_state()))
                } else {
                    None
                }
            });
            if let Some(cc) = Self::decode_cc(&e) {
                // (only if the change is going to be accepted: a rejected change touches nothing)
                let accepted = self.nodes[ni].rn.as_ref().map_or(false, |rn| {
                    set_guard(true);
                    let r = std::panic::catch_unwind(std::panic::AssertUnwindSafe(|| rn.clone().apply_conf_change(&cc).is_ok())).unwrap_or(false);
                    set_guard(false);
                    r
                });
                let recreated: Vec<u64> = if !accepted {
                    vec![]
                } else {
                    // entering a joint configuration keeps the Progress of every previous voter (it stays in
                    // the outgoing half); otherwise remove + add builds a new one
                    let joint = cc.enter_joint().is_some();
                    let old_voters: Vec<u64> = self.nodes[ni]
                        .rn
                        .as_ref()
                        .map_or(vec![], |rn| rn.raft.prs().conf().to_conf_state().voters.to_vec());
                    let ch = cc.get_changes();
                    let mut v = vec![];
                    for (k, c) in ch.iter().enumerate() {
                        if c.get_change_type() == ConfChangeType::RemoveNode
                            && ch[k + 1..].iter().any(|d| d.node_id == c.node_id && d.get_change_type() != ConfChangeType::RemoveNode)
                            && !(joint && old_voters.contains(&c.node_id))
                        {
                            v.push(c.node_id);
                        }
                    }
                    v
                };
                let r = self.call(ni, CallKind::ApplyConf(recreated), |rn| rn.apply_conf_change(&cc));
                match r {
                    Some(Ok(cs)) => {
                        self.stats.conf_applied += 1;
                        if !cs.voters_outgoing.is_empty() {
                            self.stats.joint_entered += 1;
                        }
                        new_conf = Some(cs);
                    }
                    Some(Err(_)) => {
                        self.stats.conf_rejected_by_app += 1;
                    }
                    None => return done,
                }
            }
            {
                let n = &mut self.nodes[ni];
                let mut c = n.cache.0.borrow_mut();
                c.app.applied = e.index;
                c.app.digest = digest_step(c.app.digest, e.index, e.term, entry_hash(&e));
                if let Some(cs) = &new_conf {
                    c.app.conf = cs.clone();
                }
                // AC7: applied state is durable atomically, commit raised first
                if n.disk.app.applied + 1 == e.index || n.disk.app.applied == applied_before {
                    n.disk.app = c.app.clone();
                    if n.disk.hs.commit < e.index && e.index <= n.disk.last_index() {
                        n.disk.hs.commit = e.index;
                    }
                }
            }
            self.mon.after_apply(ni, &e, new_conf.as_ref(), stale_conf_before.as_ref(), &self.nodes, self.op_index);
            done += 1;
            // the application destroys a peer that applied its own removal
            if let Some(cs) = &new_conf {
                let cv = ConfView::from_cs(cs);
                let id = self.nodes[ni].id;
                if !cv.is_member(id) && self.options & STOP_REMOVED != 0 {
                    self.crash(ni);
                    // in the fair suffix the stopped peer is started again from its disk (as an inert
                    // follower; it takes part again if a later change re-adds it)
                    self.nodes[ni].destroyed = !self.in_suffix;
                    return done;
                }
            }
            if crash_after == Some(done) {
                self.crash(ni);
                return done;
            }
        }
        done
    }

    pub(crate) fn advance_apply(&mut self, ni: usize) {
        if self.dead || !self.nodes[ni].up() {
            return;
        }
        let applied = self.nodes[ni].cache.0.borrow().app.applied;
        let cur = self.nodes[ni].rn.as_ref().unwrap().raft.raft_log.applied;
        if self.nodes[ni].to_apply.is_empty() {
            // everything handed out is applied (or covered by an installed snapshot):
            // the index-free variant must bring raft's applied index to the application's
            if applied > cur {
                self.call(ni, CallKind::AdvanceApply(0), |rn| rn.advance_apply());
            }
            self.check_applied_in_sync(ni, "advance_apply()");
        } else if applied > cur {
            self.call(ni, CallKind::AdvanceApply(applied), |rn| rn.advance_apply_to(applied));
        }
    }

    fn check_applied_in_sync(&mut self, ni: usize, how: &str) {
        if self.dead || !self.nodes[ni].up() {
            return;
        }
        let applied = self.nodes[ni].cache.0.borrow().app.applied;
        let cur = self.nodes[ni].rn.as_ref().unwrap().raft.raft_log.applied;
        self.mon.on_applied_sync(ni, cur, applied, how, self.op_index);
    }

    // ------------------------------------------------------------------ ready rounds

    fn check_has_ready(&mut self, ni: usize) -> bool {
        let rn = self.nodes[ni].rn.as_ref().unwrap();
        let has = rn.has_ready();
        if self.mon.wants_has_ready_check() {
            let mut cl = rn.clone();
            IN_GUARD.with(|g| g.set(true));
            let r = catch_unwind(AssertUnwindSafe(move || {
                let rd = cl.ready();
                rd.ss().is_some()
                    || rd.hs().is_some()
                    || !rd.read_states().is_empty()
                    || !rd.entries().is_empty()
                    || !rd.snapshot().is_empty()
                    || !rd.committed_entries().is_empty()
                    || !rd.messages().is_empty()
                    || !rd.persisted_messages().is_empty()
            }));
            IN_GUARD.with(|g| g.set(false));
            match r {
                Ok(nonempty) => self.mon.on_has_ready(ni, has, nonempty, self.op_index),
                Err(_) => {
                    let _ = take_panic();
                }
            }
        }
        has
    }

    fn maybe_crash(&mut self, ni: usize, crash_at: u8, point: u8) -> bool {
        if crash_at == point {
            self.crash(ni);
            !self.nodes[ni].up()
        } else {
            false
        }
    }

    /// One synchronous ready round (AC1-AC7). `crash_at` 0 = none.
    fn ready_sync(&mut self, ni: usize, crash_at: u8, lazy_hs: bool, apply_inline: bool) -> bool {
        if self.dead || !self.nodes[ni].up() {
            return false;
        }
        // all earlier async batches become durable first (advance_append implies it)
        self.fsync(ni, 255);
        if self.dead || !self.nodes[ni].up() {
            return false;
        }
        if !self.check_has_ready(ni) {
            return false;
        }
        let mut rd = match self.call(ni, CallKind::Ready, |rn| rn.ready()) {
            Some(rd) => rd,
            None => return true,
        };
        let n_total = rd.messages().len() + rd.persisted_messages().len();
        let mut metas = self.take_metas(ni, n_total);
        self.mon.on_ready(ni, &rd, false, &self.nodes, self.op_index);
        // 1. immediate messages: whatever the consuming accessor hands out is what an application
        // following the documented loop sends at once
        let n_view = rd.messages().len();
        let imm = rd.take_messages();
        self.mon.on_accessors(ni, n_view, imm.len(), self.op_index);
        let n_imm = imm.len().min(metas.len());
        let hold_f1 = self.options & HOLD_F1 != 0 && !imm.is_empty() && self.f1_shape(ni);
        let imm_metas: Vec<MsgMeta> = metas.drain(..n_imm).collect();
        let mut held: Option<(Vec<Message>, Vec<MsgMeta>)> = None;
        if hold_f1 {
            self.stats.excluded_f1 += 1;
            held = Some((imm, imm_metas));
        } else {
            self.release(ni, imm, imm_metas);
        }
        if self.maybe_crash(ni, crash_at, 1) {
            return true;
        }
        let batch = Batch {
            number: rd.number(),
            snapshot: if rd.snapshot().is_empty() { None } else { Some(rd.snapshot().clone()) },
            entries: rd.entries().clone(),
            hs: rd.hs().cloned(),
            must_sync: rd.must_sync(),
            msgs: vec![],
        };
        // 2. snapshot (cache + disk)
        if let Some(s) = &batch.snapshot {
            let sb = Batch { number: batch.number, snapshot: Some(s.clone()), entries: vec![], hs: None, must_sync: true, msgs: vec![] };
            self.write_batch_to_cache(ni, &sb);
            self.persist_batch_to_disk(ni, &sb, false);
            self.on_snapshot_installed(ni, s);
            if self.maybe_crash(ni, crash_at, 2) {
                return true;
            }
        }
        // 3. committed entries
        let ce = rd.take_committed_entries();
        self.nodes[ni].to_apply.extend(ce);
        if apply_inline {
            let crash_after = if crash_at == 3 { Some(1) } else { None };
            let k = self.nodes[ni].to_apply.len();
            self.apply_some(ni, k, crash_after);
            if self.dead || !self.nodes[ni].up() {
                return true;
            }
        }
        // 4. entries, 5. hard state
        let eb = Batch { number: batch.number, snapshot: None, entries: batch.entries.clone(), hs: None, must_sync: true, msgs: vec![] };
        self.write_batch_to_cache(ni, &eb);
        self.persist_batch_to_disk(ni, &eb, false);
        if self.maybe_crash(ni, crash_at, 4) {
            return true;
        }
        let hb = Batch { number: batch.number, snapshot: None, entries: vec![], hs: batch.hs.clone(), must_sync: batch.must_sync, msgs: vec![] };
        self.write_batch_to_cache(ni, &hb);
        self.persist_batch_to_disk(ni, &hb, lazy_hs);
        if self.maybe_crash(ni, crash_at, 5) {
            return true;
        }
        if let Some((m, mm)) = held.take() {
            self.release(ni, m, mm);
        }
        // 6. persisted messages
        let mut per = rd.take_persisted_messages();
        if crash_at == 6 && per.len() > 1 {
            // crash after the first persisted message left (the others are lost with the node)
            let rest = per.split_off(1);
            let rest_metas = metas.split_off(1);
            self.release(ni, per, metas);
            self.crash(ni);
            if !self.nodes[ni].up() {
                return true;
            }
            // crash refused (documented exclusion): carry on with the remaining messages
            per = rest;
            metas = rest_metas;
        }
        self.release(ni, per, metas);
        if self.maybe_crash(ni, crash_at, 7) {
            return true;
        }
        // 7. advance
        let use_advance = apply_inline && self.nodes[ni].to_apply.is_empty();
        let light = if use_advance {
            self.call(ni, CallKind::Advance, |rn| rn.advance(rd))
        } else {
            self.call(ni, CallKind::AdvanceAppend, |rn| rn.advance_append(rd))
        };
        let mut light = match light {
            Some(l) => l,
            None => return true,
        };
        if use_advance {
            self.check_applied_in_sync(ni, "advance()");
        }
        let n_l = light.messages().len();
        let lm = self.take_metas(ni, n_l);
        self.mon.on_light_ready(ni, &light, &self.nodes, self.op_index);
        if let Some(c) = light.commit_index() {
            let n = &mut self.nodes[ni];
            n.cache.0.borrow_mut().hs.commit = c;
            if !lazy_hs && c <= n.disk.last_index() && c > n.disk.hs.commit {
                n.disk.hs.commit = c;
            }
        }
        if self.maybe_crash(ni, crash_at, 8) {
            return true;
        }
        let msgs = light.take_messages();
        self.release(ni, msgs, lm);
        let ce = light.take_committed_entries();
        self.nodes[ni].to_apply.extend(ce);
        if self.maybe_crash(ni, crash_at, 9) {
            return true;
        }
        if apply_inline {
            let crash_after = if crash_at == 10 { Some(1) } else { None };
            let k = self.nodes[ni].to_apply.len();
            self.apply_some(ni, k, crash_after);
            self.advance_apply(ni);
            if self.dead || !self.nodes[ni].up() {
                return true;
            }
            if self.maybe_crash(ni, crash_at, 11) {
                return true;
            }
        } else {
            // report what the application has applied so far (covers an installed snapshot)
            self.advance_apply(ni);
        }
        true
    }

    /// Shape of known finding F1: a leader that is the sole voter of its own
    /// configuration (it won without any peer's vote) releasing immediate messages
    /// while its current term/vote is not yet durable.
    fn f1_shape(&self, ni: usize) -> bool {
        let n = &self.nodes[ni];
        match n.rn.as_ref() {
            None => false,
            Some(rn) => {
                let r = &rn.raft;
                r.state == StateRole::Leader
                    && crate::obs::sole_voter(rn)
                    && (n.disk.hs.term != r.term || n.disk.hs.vote != r.vote)
            }
        }
    }

    fn on_snapshot_installed(&mut self, ni: usize, s: &Snapshot) {
        self.stats.snapshots_installed += 1;
        let idx = s.get_metadata().index;
        self.nodes[ni].to_apply.retain(|e| e.index > idx);
        self.mon.on_snapshot_installed(ni, s, &self.nodes, self.op_index);
    }

    /// One asynchronous ready round: write to cache only, advance_append_async.
    fn ready_async(&mut self, ni: usize, crash_at: u8, apply_inline: bool) -> bool {
        if self.dead || !self.nodes[ni].up() {
            return false;
        }
        if !self.check_has_ready(ni) {
            return false;
        }
        let mut rd = match self.call(ni, CallKind::Ready, |rn| rn.ready()) {
            Some(rd) => rd,
            None => return true,
        };
        let n_total = rd.messages().len() + rd.persisted_messages().len();
        let mut metas = self.take_metas(ni, n_total);
        self.mon.on_ready(ni, &rd, true, &self.nodes, self.op_index);
        let n_view = rd.messages().len();
        let imm = rd.take_messages();
        self.mon.on_accessors(ni, n_view, imm.len(), self.op_index);
        let n_imm = imm.len().min(metas.len());
        let imm_metas: Vec<MsgMeta> = metas.drain(..n_imm).collect();
        let hold_f1 = self.options & HOLD_F1 != 0 && !imm.is_empty() && self.f1_shape(ni);
        let mut held_msgs: Vec<(Message, MsgMeta)> = vec![];
        if hold_f1 {
            self.stats.excluded_f1 += 1;
            held_msgs = imm.into_iter().zip(imm_metas).collect();
        } else {
            self.release(ni, imm, imm_metas);
        }
        if self.maybe_crash(ni, crash_at, 1) {
            return true;
        }
        let per = rd.take_persisted_messages();
        held_msgs.extend(per.into_iter().zip(metas));
        let batch = Batch {
            number: rd.number(),
            snapshot: if rd.snapshot().is_empty() { None } else { Some(rd.snapshot().clone()) },
            entries: rd.entries().clone(),
            hs: rd.hs().cloned(),
            must_sync: rd.must_sync(),
            msgs: held_msgs,
        };
        self.write_batch_to_cache(ni, &batch);
        if let Some(s) = &batch.snapshot {
            let s = s.clone();
            self.on_snapshot_installed(ni, &s);
        }
        let ce = rd.take_committed_entries();
        self.nodes[ni].to_apply.extend(ce);
        self.nodes[ni].batches.push_back(batch);
        self.stats.async_batches += 1;
        let lag = self.nodes[ni].batches.len() as u32;
        if lag > self.stats.fsync_lag_max {
            self.stats.fsync_lag_max = lag;
        }
        if self.maybe_crash(ni, crash_at, 4) {
            return true;
        }
        if self.call(ni, CallKind::AdvanceAsync, |rn| rn.advance_append_async(rd)).is_none() {
            return true;
        }
        if self.maybe_crash(ni, crash_at, 7) {
            return true;
        }
        if apply_inline {
            let k = self.nodes[ni].to_apply.len();
            self.apply_some(ni, k, None);
        }
        // report what the application has applied so far (covers an installed snapshot)
        self.advance_apply(ni);
        true
    }

    /// Makes the first batches durable (how many: selected by `sel`), releases
    /// their persisted messages and notifies raft - one atomic step (AC4).
    pub(crate) fn fsync(&mut self, ni: usize, sel: u8) -> bool {
        if self.dead || !self.nodes[ni].up() || self.nodes[ni].batches.is_empty() {
            return false;
        }
        let len = self.nodes[ni].batches.len();
        let cnt = 1 + ((sel as usize * len) >> 8).min(len - 1);
        let mut last = 0;
        for _ in 0..cnt {
            let mut b = self.nodes[ni].batches.pop_front().unwrap();
            last = b.number;
            self.persist_batch_to_disk(ni, &b, false);
            let (msgs, metas): (Vec<Message>, Vec<MsgMeta>) = std::mem::take(&mut b.msgs).into_iter().unzip();
            self.release(ni, msgs, metas);
        }
        self.call(ni, CallKind::OnPersist(last), |rn| rn.on_persist_ready(last));
        true
    }

    pub(crate) fn ready_step(&mut self, ni: usize, crash_at: u8, lazy_hs: bool, apply_inline: bool, force_sync: bool) -> bool {
        if self.nodes[ni].cfg.async_io && !force_sync {
            self.ready_async(ni, crash_at, apply_inline)
        } else {
            self.ready_sync(ni, crash_at, lazy_hs, apply_inline)
        }
    }

    // ------------------------------------------------------------------ crash / restart

    pub fn crash(&mut self, ni: usize) {
        if !self.nodes[ni].up() {
            return;
        }
        // a node that applied unpersisted entries must not lose them (documented limitation)
        {
            let n = &self.nodes[ni];
            if n.disk.app.applied > n.disk.last_index() {
                self.stats.excluded_other += 1;
                return;
            }
        }
        // Known finding F11 (C02): a sole voter that elected itself inside campaign() is in the leader role
        // before its term and vote are on disk; crashing it there lets another node lead the same term later.
        if self.options & EXCLUDE_F11 != 0 && self.options & NO_F11_EXCLUSION == 0 {
            let n = &self.nodes[ni];
            if let Some(rn) = n.rn.as_ref() {
                if rn.raft.state == StateRole::Leader && (n.disk.hs.term < rn.raft.term || n.disk.hs.vote != rn.raft.id) {
                    self.stats.excluded_f11 += 1;
                    return;
                }
            }
        }
        self.stats.crashes += 1;
        if let Some(t) = self.trace.as_mut() {
            t.push(format!("  [{}] n{} CRASH", self.op_index, ni + 1));
        }
        let lost = {
            let n = &self.nodes[ni];
            !n.batches.is_empty()
                || n.rn.as_ref().map_or(false, |rn| {
                    !rn.raft.raft_log.unstable.entries.is_empty() || !rn.raft.msgs.is_empty()
                })
        };
        if lost {
            self.stats.crashes_lost_data += 1;
        }
        self.mon.on_crash(ni, lost, &self.nodes, self.op_index);
        let n = &mut self.nodes[ni];
        n.rn = None;
        n.batches.clear();
        n.to_apply.clear();
        n.pending_meta.clear();
        n.cache = SimStore::new(n.disk.clone());
        {
            let mut c = n.cache.0.borrow_mut();
            c.fetch_unavailable = 0;
            c.pending_fetch.clear();
        }
    }

    // ------------------------------------------------------------------ ops

    pub(crate) fn propose_payload(&mut self, len: usize) -> Vec<u8> {
        self.proposal_ctr += 1;
        if len == 0 {
            return vec![];
        }
        let mut v = self.proposal_ctr.to_le_bytes().to_vec();
        v.resize(len.max(8), 0xab);
        v
    }

    pub fn build_cc(spec: &CcSpec) -> (Option<ConfChange>, ConfChangeV2) {
        let ty = |t: u8| match t {
            0 => ConfChangeType::AddNode,
            1 => ConfChangeType::RemoveNode,
            _ => ConfChangeType::AddLearnerNode,
        };
        if !spec.v2 && spec.changes.len() == 1 {
            let mut cc = ConfChange::default();
            cc.set_change_type(ty(spec.changes[0].0));
            cc.node_id = spec.changes[0].1;
            let v2 = raft_proto::ConfChangeI::into_v2(cc.clone());
            return (Some(cc), v2);
        }
        let mut cc = ConfChangeV2::default();
        cc.set_transition(match spec.transition {
            0 => ConfChangeTransition::Auto,
            1 => ConfChangeTransition::Implicit,
            _ => ConfChangeTransition::Explicit,
        });
        let mut ch = vec![];
        for (t, id) in &spec.changes {
            let mut s = ConfChangeSingle::default();
            s.set_change_type(ty(*t));
            s.node_id = *id;
            ch.push(s);
        }
        cc.set_changes(ch.into());
        (None, cc)
    }

    pub(crate) fn tick_until_timeout(&mut self, ni: usize) -> bool {
        if !self.nodes[ni].up() {
            return false;
        }
        let max = 2 * self.sc.election_tick + 1;
        let role0 = self.nodes[ni].rn.as_ref().unwrap().raft.state;
        let term0 = self.nodes[ni].rn.as_ref().unwrap().raft.term;
        let lim = if role0 == StateRole::Leader { self.sc.heartbeat_tick } else { max };
        for _ in 0..lim {
            if self.dead || !self.nodes[ni].up() {
                break;
            }
            if self.f3_trigger(ni) {
                self.stats.excluded_f3 += 1;
                break;
            }
            self.call(ni, CallKind::Tick, |rn| rn.tick());
            if let Some(rn) = self.nodes[ni].rn.as_ref() {
                if role0 != StateRole::Leader && (rn.raft.state != role0 || rn.raft.term != term0) {
                    break;
                }
            }
        }
        true
    }

    /// Full default processing of node ni until it has nothing ready (bounded).
    pub(crate) fn process_node(&mut self, ni: usize) -> bool {
        let mut any = false;
        for _ in 0..6 {
            if self.dead || !self.nodes[ni].up() {
                break;
            }
            let a = if self.nodes[ni].cfg.async_io {
                let a = self.ready_async(ni, 0, true);
                let b = self.fsync(ni, 255);
                a || b
            } else {
                self.ready_sync(ni, 0, false, true)
            };
            let mut b = false;
            if self.nodes[ni].up() && !self.nodes[ni].to_apply.is_empty() {
                let k = self.nodes[ni].to_apply.len();
                self.apply_some(ni, k, None);
                self.advance_apply(ni);
                b = true;
            }
            if !a && !b {
                break;
            }
            any = true;
        }
        any
    }

    pub fn settle(&mut self, rounds: usize) -> bool {
        let mut any = false;
        for _ in 0..rounds * 3 {
            if self.dead {
                break;
            }
            let mut progressed = false;
            for ni in 0..NN {
                if self.process_node(ni) {
                    progressed = true;
                }
            }
            let k = self.net.len();
            for _ in 0..k {
                if let Some((m, meta)) = self.net.pop_front() {
                    self.deliver_msg(m, meta);
                    progressed = true;
                }
            }
            if !progressed {
                break;
            }
            any = true;
        }
        any
    }

    /// Maps a generated node byte onto the nodes satisfying `pred` (construction
    /// instead of rejection); falls back to the plain index when none does.
    fn pick_node(&self, n: u8, pred: impl Fn(&Node) -> bool) -> usize {
        if self.strict_nodes {
            return self.node_index(n);
        }
        let el: Vec<usize> = (0..NN).filter(|i| pred(&self.nodes[*i])).collect();
        if el.is_empty() {
            return self.node_index(n);
        }
        let plain = self.node_index(n);
        if el.contains(&plain) {
            return plain;
        }
        el[((n as usize).max(1) - 1) * el.len() / NN.max(1) % el.len()]
    }

    pub(crate) fn node_index(&self, n: u8) -> usize {
        ((n as usize).max(1) - 1).min(NN - 1)
    }

    pub fn exec(&mut self, op: &Op) {
        if self.dead {
            return;
        }
        self.stats.ops += 1;
        if let Some(t) = self.trace.as_mut() {
            t.push(format!("op[{}] {:?}", self.op_index, op));
        }
        let mut effective = self.exec_inner(op);
        if !effective && !self.strict_nodes && !self.dead {
            // an inapplicable operation lets the system move on instead of doing nothing:
            // a pending Ready is processed, else the oldest message is delivered, else time passes
            effective = self.idle_fallback();
            if effective {
                self.stats.fallbacks += 1;
            }
        }
        if !effective {
            self.stats.noops += 1;
            self.stats.noop_by_kind[op.kind()] += 1;
        }
        self.mon.after_op(&self.nodes, self.op_index);
        self.op_index += 1;
    }

    /// The application's background fetch finished: every recorded context is handed back.
    pub(crate) fn complete_fetches(&mut self, ni: usize) -> bool {
        if !self.nodes[ni].up() {
            return false;
        }
        let ctxs: Vec<raft::GetEntriesContext> = std::mem::take(&mut self.nodes[ni].cache.0.borrow_mut().pending_fetch);
        if ctxs.is_empty() {
            return false;
        }
        for c in ctxs {
            if self.dead || !self.nodes[ni].up() {
                break;
            }
            self.stats.fetches_completed += 1;
            let before = self.nodes[ni].rn.as_ref().map_or(0, |r| r.raft.msgs.len());
            self.call(ni, CallKind::Fetched, move |rn| rn.on_entries_fetched(c));
            if self.nodes[ni].rn.as_ref().map_or(0, |r| r.raft.msgs.len()) > before {
                self.stats.fetches_sent += 1;
            }
        }
        true
    }

    fn idle_fallback(&mut self) -> bool {
        for ni in 0..NN {
            if self.nodes[ni].rn.as_ref().map_or(false, |r| r.has_ready()) {
                return self.ready_step(ni, 0, false, true, false);
            }
        }
        for ni in 0..NN {
            if self.nodes[ni].up() && !self.nodes[ni].batches.is_empty() {
                return self.fsync(ni, 0);
            }
        }
        if let Some((m, meta)) = self.net.pop_front() {
            self.deliver_msg(m, meta);
            return true;
        }
        self.exec_inner(&Op::TickAll { k: 1 })
    }

    pub(crate) fn exec_inner(&mut self, op: &Op) -> bool {
        match op {
            Op::Tick { n, k } => {
                let ni = self.node_index(*n);
                if !self.nodes[ni].up() {
                    return false;
                }
                for _ in 0..*k {
                    if self.dead || !self.nodes[ni].up() {
                        break;
                    }
                    if self.f3_trigger(ni) {
                        self.stats.excluded_f3 += 1;
                        return false;
                    }
                    self.call(ni, CallKind::Tick, |rn| rn.tick());
                }
                true
            }
            Op::TickUntilTimeout { n } => {
                let ni = self.node_index(*n);
                self.tick_until_timeout(ni)
            }
            Op::Deliver { k } => {
                if self.net.is_empty() {
                    return false;
                }
                let i = (*k as usize * self.net.len()) >> 16;
                let (m, meta) = self.net.remove(i).unwrap();
                self.deliver_msg(m, meta);
                true
            }
            Op::Drop { k } => {
                if self.net.is_empty() {
                    return false;
                }
                let i = (*k as usize * self.net.len()) >> 16;
                self.net.remove(i);
                self.stats.dropped += 1;
                true
            }
            Op::Dup { k } => {
                if self.net.is_empty() {
                    return false;
                }
                let i = (*k as usize * self.net.len()) >> 16;
                let (m, meta) = self.net[i].clone();
                self.mon.on_dup(&m);
                self.deliver_msg(m, meta);
                true
            }
            Op::Settle { rounds } => self.settle(*rounds as usize),
            Op::Partition { mask } => {
                self.mon.b.partition_events += 1;
                self.part = Some(*mask);
                true
            }
            Op::Heal => {
                let had = self.part.is_some();
                self.part = None;
                had
            }
            Op::Propose { n, len, ctx } => {
                let ni = self.node_index(*n);
                if !self.nodes[ni].up() {
                    return false;
                }
                let data = self.propose_payload(*len as usize);
                let context = if *ctx { vec![0xc7, (self.proposal_ctr & 0xff) as u8] } else { vec![] };
                let dl = data.len();
                self.mon.before_propose(ni, &data);
                let r = self.call(ni, CallKind::Propose { len: dl }, move |rn| rn.propose(context, data));
                match r {
                    Some(Ok(())) => self.stats.proposals_ok += 1,
                    Some(Err(_)) => self.stats.proposals_dropped += 1,
                    None => {}
                }
                if let Some(r) = r {
                    self.mon.on_propose_result(ni, r.is_ok(), self.op_index);
                }
                true
            }
            Op::ProposeConf { n, cc } => {
                let ni = self.node_index(*n);
                if !self.nodes[ni].up() {
                    return false;
                }
                self.stats.conf_proposed += 1;
                let (v1, v2) = Self::build_cc(cc);
                let spec = cc.clone();
                let r = self.call(ni, CallKind::ProposeConf(spec), move |rn| match v1 {
                    Some(c) => rn.propose_conf_change(vec![], c),
                    None => rn.propose_conf_change(vec![], v2),
                });
                if let Some(r) = r {
                    self.mon.on_propose_result(ni, r.is_ok(), self.op_index);
                }
                true
            }
            Op::ReadIndex { n } => {
                let ni = self.node_index(*n);
                if !self.nodes[ni].up() {
                    return false;
                }
                self.read_ctr += 1;
                let ctx = format!("r{}", self.read_ctr).into_bytes();
                self.stats.reads_issued += 1;
                self.mon.on_read_issued(ni, &ctx, &self.nodes, self.op_index);
                let c2 = ctx.clone();
                self.call(ni, CallKind::ReadIndex(c2), move |rn| rn.read_index(ctx));
                true
            }
            Op::Transfer { n, target } => {
                let ni = self.node_index(*n);
                if !self.nodes[ni].up() {
                    return false;
                }
                self.stats.transfers += 1;
                let t = *target as u64;
                self.call(ni, CallKind::Transfer(t), move |rn| rn.transfer_leader(t));
                true
            }
            Op::Campaign { n } => {
                let ni = self.node_index(*n);
                if !self.nodes[ni].up() {
                    return false;
                }
                // AC12: only on a voter of its own configuration
                let ok = self.nodes[ni].rn.as_ref().unwrap().raft.promotable();
                if !ok {
                    return false;
                }
                if self.f3_trigger(ni) {
                    self.stats.excluded_f3 += 1;
                    return false;
                }
                self.call(ni, CallKind::Campaign, |rn| rn.campaign());
                true
            }
            Op::ReportSnapshot { k, ok } => {
                if self.snap_reports.is_empty() {
                    return false;
                }
                let i = (*k as usize * self.snap_reports.len()) >> 8;
                let (from, to) = self.snap_reports.remove(i);
                let ni = (from - 1) as usize;
                if !self.nodes[ni].up() {
                    return false;
                }
                let st = if *ok { SnapshotStatus::Finish } else { SnapshotStatus::Failure };
                let okk = *ok;
                self.call(ni, CallKind::ReportSnapshot(to, okk), move |rn| rn.report_snapshot(to, st));
                true
            }
            Op::ReportUnreachable { n, peer } => {
                let ni = self.node_index(*n);
                if !self.nodes[ni].up() {
                    return false;
                }
                let p = *peer as u64;
                self.call(ni, CallKind::ReportUnreachable(p), move |rn| rn.report_unreachable(p));
                true
            }
            Op::RequestSnapshot { n } => {
                let ni = self.node_index(*n);
                if !self.nodes[ni].up() {
                    return false;
                }
                // Known finding F8 (C10): a snapshot requested at an uncommitted last index can never be
                // served by a conforming Storage when the requester's ack is needed to commit that index.
                if self.options & EXCLUDE_F8 != 0 && self.options & NO_F8_EXCLUSION == 0 {
                    let rl = &self.nodes[ni].rn.as_ref().unwrap().raft.raft_log;
                    if rl.last_index() > rl.committed {
                        self.stats.excluded_other += 1;
                        return false;
                    }
                }
                self.call(ni, CallKind::RequestSnapshot, |rn| rn.request_snapshot());
                true
            }
            Op::ReadyStep { n, crash_at, lazy_hs, apply_inline, force_sync } => {
                let ni = self.pick_node(*n, |nd| nd.rn.as_ref().map_or(false, |r| r.has_ready()));
                self.ready_step(ni, *crash_at, *lazy_hs, *apply_inline, *force_sync)
            }
            Op::Fsync { n, upto } => {
                let ni = self.pick_node(*n, |nd| nd.up() && !nd.batches.is_empty());
                self.fsync(ni, *upto)
            }
            Op::Apply { n, count } => {
                let ni = self.pick_node(*n, |nd| nd.up() && !nd.to_apply.is_empty());
                if !self.nodes[ni].up() || self.nodes[ni].to_apply.is_empty() {
                    return false;
                }
                self.apply_some(ni, *count as usize, None);
                self.advance_apply(ni);
                true
            }
            Op::Crash { n } => {
                let ni = self.pick_node(*n, |nd| nd.up());
                if !self.nodes[ni].up() {
                    return false;
                }
                self.crash(ni);
                true
            }
            Op::Restart { n } => {
                let ni = self.pick_node(*n, |nd| !nd.up() && !nd.destroyed);
                if self.nodes[ni].up() || self.nodes[ni].destroyed {
                    return false;
                }
                self.stats.restarts += 1;
                self.start_node(ni);
                true
            }
            Op::Compact { n, back } => {
                let ni = self.node_index(*n);
                if !self.nodes[ni].up() {
                    return false;
                }
                let node = &mut self.nodes[ni];
                let applied = node.cache.0.borrow().app.applied.min(node.disk.app.applied);
                let to = applied.saturating_sub(*back as u64);
                let before = node.cache.0.borrow().snap_index;
                if to <= before {
                    return false;
                }
                node.cache.0.borrow_mut().compact(to);
                node.disk.compact(to);
                self.stats.compactions += 1;
                self.mon.on_compact(ni, to, &self.nodes, self.op_index);
                true
            }
            Op::Knob { n, k, v } => {
                let ni = self.node_index(*n);
                if !self.nodes[ni].up() {
                    return false;
                }
                let (k, v) = (*k, *v);
                if k == 0 {
                    let target = node_of(v) as u64;
                    let cap = (v & 7) as usize % 5;
                    if let Some(p) = self.nodes[ni].rn.as_ref().unwrap().raft.prs().get(target) {
                        let cnt = p.ins.count();
                        self.mon.on_cap_change(ni, target, cap, cnt);
                    }
                }
                let allow_unpersisted = self.mon.allow_apply_unpersisted();
                self.call(ni, CallKind::Knob, move |rn| match k {
                    0 => {
                        let target = node_of(v) as u64;
                        let cap = (v & 7) as usize % 5;
                        rn.raft.adjust_max_inflight_msgs(target, cap);
                    }
                    1 => rn.set_batch_append(v & 1 == 1),
                    2 => rn.skip_bcast_commit(v & 1 == 1),
                    3 => rn.set_priority([0i64, 1, 2, -1][(v & 3) as usize]),
                    4 => rn.raft.set_max_committed_size_per_ready([NO_LIMIT, 0, 30, 100][(v & 3) as usize]),
                    5 => {
                        if allow_unpersisted && rn.raft.state == StateRole::Leader {
                            rn.raft.set_max_apply_unpersisted_log_limit([0u64, 1, 3, 0][(v & 3) as usize]);
                        }
                    }
                    6 => rn.raft.enable_group_commit(v & 1 == 1),
                    8 => rn.raft.maybe_free_inflight_buffers(),
                    9 => {
                        // read-only API: must not panic in any state
                        let st = rn.status();
                        let _ = (st.ss, st.hs, st.applied, st.progress.is_some());
                        let _ = rn.raft.check_group_commit_consistent();
                        let _ = (rn.raft.in_lease(), rn.raft.pending_read_count(), rn.raft.ready_read_count(), rn.raft.inflight_buffers_size());
                        let _ = (rn.raft.commit_to_current_term(), rn.raft.apply_to_current_term(), rn.raft.uncommitted_size(), rn.snap().is_some());
                    }
                    _ => {
                        // commit groups from the bits of v (group ids 1 or 2; some peers left unassigned)
                        let mut ids = vec![];
                        for id in 1..=NN as u64 {
                            if v >> (id - 1) & 1 == 1 {
                                ids.push((id, 1 + (v as u64 >> id) % 2));
                            }
                        }
                        if v & 0x80 != 0 {
                            rn.raft.clear_commit_group();
                        }
                        rn.raft.assign_commit_groups(&ids);
                    }
                });
                true
            }
            Op::SnapUnavailable { n } => {
                let ni = self.node_index(*n);
                self.nodes[ni].cache.0.borrow_mut().snap_unavailable = true;
                true
            }
            Op::DeliverTo { n } => {
                let id = self.nodes[self.node_index(*n)].id;
                let mut rest = VecDeque::new();
                let mut mine = vec![];
                while let Some(x) = self.net.pop_front() {
                    if x.0.to == id {
                        mine.push(x);
                    } else {
                        rest.push_back(x);
                    }
                }
                self.net = rest;
                let any = !mine.is_empty();
                for (m, meta) in mine {
                    self.deliver_msg(m, meta);
                }
                any
            }
            Op::TickAll { k } => {
                let mut any = false;
                for _ in 0..*k {
                    for ni in 0..NN {
                        if self.dead || !self.nodes[ni].up() {
                            continue;
                        }
                        if self.f3_trigger(ni) {
                            self.stats.excluded_f3 += 1;
                            continue;
                        }
                        self.call(ni, CallKind::Tick, |rn| rn.tick());
                        any = true;
                    }
                }
                any
            }
            Op::StepLocal { n, t, from } => {
                let ni = self.node_index(*n);
                if !self.nodes[ni].up() {
                    return false;
                }
                let ty = [
                    MessageType::MsgHup,
                    MessageType::MsgBeat,
                    MessageType::MsgUnreachable,
                    MessageType::MsgSnapStatus,
                    MessageType::MsgCheckQuorum,
                ][(*t % 5) as usize];
                let mut m = Message::default();
                m.set_msg_type(ty);
                m.from = *from as u64;
                m.to = self.nodes[ni].id;
                let r = self.call(ni, CallKind::StepLocal(ty), move |rn| rn.step(m));
                if let Some(r) = r {
                    self.mon.on_step_local_result(ni, r.is_err(), self.op_index);
                }
                true
            }
            Op::ProposeBatch { n, items } => {
                let ni = self.node_index(*n);
                if !self.nodes[ni].up() {
                    return false;
                }
                let mut ents = vec![];
                for it in items {
                    let mut e = Entry::default();
                    match it {
                        None => {
                            e.data = self.propose_payload(8).into();
                        }
                        Some(spec) => {
                            self.stats.conf_proposed += 1;
                            let (v1, v2) = Self::build_cc(spec);
                            match v1 {
                                Some(c) => {
                                    e.set_entry_type(EntryType::EntryConfChange);
                                    e.data = c.write_to_bytes().unwrap().into();
                                }
                                None => {
                                    e.set_entry_type(EntryType::EntryConfChangeV2);
                                    e.data = v2.write_to_bytes().unwrap().into();
                                }
                            }
                        }
                    }
                    ents.push(e);
                }
                let mut m = Message::default();
                m.set_msg_type(MessageType::MsgPropose);
                m.from = self.nodes[ni].id;
                m.set_entries(ents.into());
                let specs: Vec<Option<CcSpec>> = items.clone();
                let r = self.call(ni, CallKind::ProposeBatch(specs), move |rn| rn.step(m));
                if let Some(r) = r {
                    self.mon.on_propose_result(ni, r.is_ok(), self.op_index);
                }
                true
            }
            Op::Ping { n } => {
                let ni = self.node_index(*n);
                if !self.nodes[ni].up() {
                    return false;
                }
                self.call(ni, CallKind::Ping, |rn| rn.ping());
                true
            }
            Op::LogFetch { n, refuse } => {
                if *refuse > 0 {
                    let ni = self.pick_node(*n, |x| x.rn.as_ref().map_or(false, |r| r.raft.state == StateRole::Leader));
                    if !self.nodes[ni].up() {
                        return false;
                    }
                    self.nodes[ni].cache.0.borrow_mut().fetch_unavailable = *refuse;
                    true
                } else {
                    let ni = self.pick_node(*n, |x| x.up() && !x.cache.0.borrow().pending_fetch.is_empty());
                    self.complete_fetches(ni)
                }
            }
        }
    }

    pub fn warm_up(&mut self) {
        let ops = [
            Op::TickUntilTimeout { n: 1 },
            Op::Settle { rounds: 3 },
            Op::Propose { n: 1, len: 8, ctx: false },
            Op::Propose { n: 1, len: 16, ctx: false },
            Op::Settle { rounds: 2 },
        ];
        for op in &ops {
            self.exec_inner(op);
        }
    }

    pub fn run(case: &Case, mon: Mon, options: u32, trace: bool) -> RunOutcome {
        let mut w = World::new(&case.scenario, mon, options);
        if trace {
            w.trace = Some(vec![]);
        }
        if case.scenario.warm {
            w.warm_up();
        }
        for op in &case.ops {
            if w.dead {
                break;
            }
            w.exec(op);
        }
        w.finish()
    }

    /// C10: fault prefix followed by a deterministic fair suffix; bounded convergence.
    pub fn run_liveness(case: &Case, mon: Mon, options: u32, trace: bool) -> RunOutcome {
        let mut w = World::new(&case.scenario, mon, options);
        if trace {
            w.trace = Some(vec![]);
        }
        if case.scenario.warm {
            w.warm_up();
        }
        for op in &case.ops {
            if w.dead {
                break;
            }
            w.exec(op);
        }
        if !w.dead {
            w.fair_suffix();
        }
        w.finish()
    }

    fn suffix_round(&mut self, probes: &mut Vec<Vec<u8>>, round: usize) {
        for ni in 0..NN {
            if !self.nodes[ni].up() && !self.dead {
                self.start_node(ni);
            }
        }
        // outstanding snapshot reports (AC9)
        let reps = std::mem::take(&mut self.snap_reports);
        for (from, to) in reps {
            let ni = (from - 1) as usize;
            if self.nodes[ni].up() {
                self.call(ni, CallKind::ReportSnapshot(to, true), move |rn| rn.report_snapshot(to, SnapshotStatus::Finish));
            }
        }
        for ni in 0..NN {
            if self.dead || !self.nodes[ni].up() {
                continue;
            }
            if self.f3_trigger(ni) {
                self.stats.excluded_f3 += 1;
                continue;
            }
            self.call(ni, CallKind::Tick, |rn| rn.tick());
        }
        // a small probe proposal at a leader: whenever none of the earlier ones is in that leader's log
        // (dropped with a deposed leader), and anyway once per election timeout so that the log keeps
        // growing (a follower waiting for a snapshot at a higher index is then eventually served)
        // (the leader of the highest term: a removed or partitioned-away stale leader may linger)
        let leader = (0..NN)
            .filter(|i| self.nodes[*i].rn.as_ref().map_or(false, |rn| rn.raft.state == StateRole::Leader && rn.raft.prs().get(rn.raft.id).is_some()))
            .max_by_key(|i| self.nodes[*i].rn.as_ref().unwrap().raft.term);
        if let Some(li) = leader {
            let has_probe = {
                let rn = self.nodes[li].rn.as_ref().unwrap();
                let c = self.nodes[li].cache.0.borrow();
                probes.iter().any(|p| c.entries.iter().any(|e| e.data[..] == p[..]) || rn.raft.raft_log.unstable.entries.iter().any(|e| e.data[..] == p[..]))
            };
            if !has_probe || round % (2 * self.sc.election_tick) == 0 {
                let data = self.propose_payload(8);
                let d2 = data.clone();
                let r = self.call(li, CallKind::Propose { len: 8 }, move |rn| rn.propose(vec![], d2));
                if let Some(Ok(())) = r {
                    probes.push(data);
                }
            }
        }
        for _ in 0..4 {
            if !self.settle(1) {
                break;
            }
        }
    }

    fn converged(&self, probes: &[Vec<u8>]) -> Result<(), String> {
        let ups: Vec<usize> = (0..NN).filter(|i| self.nodes[*i].up()).collect();
        // the leader of the highest term that is a member of its own configuration; nodes outside
        // that configuration (removed peers that still run, possibly at inflated terms) do not count
        let leaders: Vec<usize> = ups
            .iter()
            .cloned()
            .filter(|i| {
                let r = &self.nodes[*i].rn.as_ref().unwrap().raft;
                // (a leader demoted to learner by its own change keeps leading and replicating - finding F4's
                // milder form; it still counts as the cluster's leader as long as it is a member)
                r.state == StateRole::Leader && r.prs().get(r.id).is_some()
            })
            .collect();
        let li = match leaders.iter().cloned().max_by_key(|i| self.nodes[*i].rn.as_ref().unwrap().raft.term) {
            Some(l) => l,
            None => return Err("no leader".into()),
        };
        {
            let lr = self.nodes[li].rn.as_ref().unwrap();
            let lt = lr.raft.term;
            let conf = ConfView::from_cs(&lr.raft.prs().conf().to_conf_state());
            for i in &ups {
                let r = &self.nodes[*i].rn.as_ref().unwrap().raft;
                if *i != li && conf.is_member(r.id) && (r.term != lt || r.state == StateRole::Leader) {
                    return Err(format!("member {} is {:?} at term {} while leader {} is at term {}", r.id, r.state, r.term, li + 1, lt));
                }
            }
        }
        let lr = self.nodes[li].rn.as_ref().unwrap();
        let conf = ConfView::from_cs(&lr.raft.prs().conf().to_conf_state());
        let llog = log_view(lr);
        let lcommit = lr.raft.raft_log.committed;
        if probes.is_empty() {
            return Err("no probe proposal accepted yet".into());
        }
        // the probe that counts: the latest one the leader has committed
        let mut probe: Option<&Vec<u8>> = None;
        {
            let c = self.nodes[li].cache.0.borrow();
            for p in probes.iter().rev() {
                if c.entries.iter().any(|e| e.index <= lcommit && e.data[..] == p[..]) {
                    probe = Some(p);
                    break;
                }
            }
        }
        let probe = match probe {
            Some(p) => p,
            None => return Err("no probe entry committed by the current leader yet".into()),
        };
        for ni in ups {
            let id = (ni + 1) as u64;
            if !conf.is_member(id) {
                continue;
            }
            let rn = self.nodes[ni].rn.as_ref().unwrap();
            let lg = log_view(rn);
            if lg.last() != llog.last() || lg.term(lg.last()) != llog.term(llog.last()) {
                return Err(format!("node {} last ({}, {:?}) != leader {} last ({}, {:?})", id, lg.last(), lg.term(lg.last()), li + 1, llog.last(), llog.term(llog.last())));
            }
            if rn.raft.raft_log.committed != lcommit {
                return Err(format!("node {} commit {} != leader commit {}", id, rn.raft.raft_log.committed, lcommit));
            }
            let app = self.nodes[ni].cache.0.borrow().app.applied;
            // the probe must have been applied: find it in the log at or below the applied index
            let c = self.nodes[ni].cache.0.borrow();
            let mut found = false;
            for e in c.entries.iter().rev() {
                if e.index <= app && e.data[..] == probe[..] {
                    found = true;
                    break;
                }
            }
            // (a member whose log was compacted past the probe has applied it too)
            if !found && !(app >= lcommit && lcommit >= c.snap_index && c.entries.iter().all(|e| e.data[..] != probe[..]) && c.snap_index > 0 && self.mon.probe_committed_below(c.snap_index, probe)) {
                return Err(format!("node {} has not applied the probe entry (applied {}, commit {})", id, app, lcommit));
            }
        }
        Ok(())
    }

    fn fair_suffix(&mut self) {
        // ---- stabilisation: faults stop
        self.part = None;
        self.in_suffix = true;
        self.mon.note_liveness_start(&self.nodes);
        for ni in 0..NN {
            // a peer stopped after applying its own removal keeps its disk; it is started again too
            // (inert unless a later change re-adds it - ids are never reused with a wiped disk, AC10)
            self.nodes[ni].destroyed = false;
            if !self.nodes[ni].up() {
                self.stats.restarts += 1;
                self.start_node(ni);
            }
        }
        if self.dead {
            return;
        }
        set_fair_timeouts(true);
        // operator knobs back to their configured values
        for ni in 0..NN {
            if !self.nodes[ni].up() {
                continue;
            }
            let cap = self.nodes[ni].cfg.max_inflight;
            let pri = self.nodes[ni].cfg.priority;
            self.call(ni, CallKind::Knob, move |rn| {
                for t in 1..=NN as u64 {
                    rn.raft.adjust_max_inflight_msgs(t, cap);
                }
                rn.set_priority(pri);
            });
            self.nodes[ni].cache.0.borrow_mut().snap_unavailable = false;
            self.nodes[ni].cache.0.borrow_mut().fetch_unavailable = 0;
            self.complete_fetches(ni);
        }
        let et = self.sc.election_tick;
        let bound = 12 * 2 * et;
        let mut probes: Vec<Vec<u8>> = vec![];
        let mut last_err = String::new();
        let mut ok_at: Option<usize> = None;
        for r in 0..8 * bound {
            if self.dead {
                return;
            }
            // Raft's liveness rests on randomised timeouts: "eventually one node times out alone". The first
            // 2*bound rounds draw pseudo-random timeouts; after that the assumption is made explicit - each
            // running node in turn gets the shortest timeout and everybody else the longest, for `bound` rounds.
            // Only a state that stays stuck under every such schedule is reported.
            if r >= 2 * bound && (r - 2 * bound) % bound == 0 {
                // the nodes with the most complete logs first: they are the ones that can win
                let mut ups: Vec<usize> = (0..NN).filter(|i| self.nodes[*i].up()).collect();
                ups.sort_by_key(|i| {
                    let l = &self.nodes[*i].rn.as_ref().unwrap().raft.raft_log;
                    (std::cmp::Reverse((l.last_term(), l.last_index())), *i)
                });
                if !ups.is_empty() {
                    let fav = ups[((r - 2 * bound) / bound) % ups.len()];
                    for ni in 0..NN {
                        pin_timeout((ni + 1) as u64, Some(if ni == fav { 0 } else { et - 1 }));
                    }
                }
            }
            self.suffix_round(&mut probes, r + 1);
            if self.dead {
                return;
            }
            match self.converged(&probes) {
                Ok(()) => {
                    ok_at = Some(r + 1);
                    break;
                }
                Err(e) => last_err = e,
            }
        }
        set_fair_timeouts(false);
        for ni in 0..NN {
            pin_timeout((ni + 1) as u64, None);
        }
        match ok_at {
            Some(r) => self.mon.note_liveness_result(r, bound),
            None => {
                let mut summary = String::new();
                for ni in 0..NN {
                    if let Some(rn) = self.nodes[ni].rn.as_ref() {
                        let r = &rn.raft;
                        summary.push_str(&format!(
                            " n{}:{:?}/t{}/c{}/l{}/lead{}",
                            ni + 1, r.state, r.term, r.raft_log.committed, r.raft_log.last_index(), r.leader_id
                        ));
                    }
                }
                // precise tag for listed finding F8: a member still waits for a requested snapshot whose
                // index the leader has not applied
                let lead_applied = (0..NN)
                    .filter_map(|i| self.nodes[i].rn.as_ref())
                    .filter(|rn| rn.raft.state == StateRole::Leader)
                    .map(|rn| rn.raft.raft_log.applied)
                    .max()
                    .unwrap_or(0);
                let stuck_req = (0..NN).filter_map(|i| self.nodes[i].rn.as_ref()).any(|rn| {
                    rn.raft.pending_request_snapshot > lead_applied
                        || (rn.raft.state == StateRole::Leader && rn.raft.prs().iter().any(|(_, p)| p.pending_request_snapshot > rn.raft.raft_log.applied))
                });
                let mon_name = if stuck_req { "no-convergence-after-stabilisation:snapshot-request-beyond-leader-applied" } else { "no-convergence-after-stabilisation" };
                self.mon.violation(
                    "C10",
                    mon_name,
                    format!("after {} fair rounds ({} election timeouts) the cluster has not converged: {};{}", 8 * bound, 8 * 12, last_err, summary),
                    self.op_index,
                );
            }
        }
    }

    pub fn finish(mut self) -> RunOutcome {
        raft::verif_export::set_election_timeout_provider(None);
        self.mon.finish(&self.nodes, &mut self.stats);
        RunOutcome {
            violations: std::mem::take(&mut self.mon.violations),
            panic: self.panic.take(),
            stats: self.stats.clone(),
            flags: self.mon.flags(),
            trace: self.trace.take(),
        }
    }
}

pub struct RunOutcome {
    pub violations: Vec<Violation>,
    pub panic: Option<(PanicInfo, String)>,
    pub stats: CaseStats,
    pub flags: u64,
    pub trace: Option<Vec<String>>,
}

#[allow(dead_code)]
fn _unused(_: Rc<()>) {}
