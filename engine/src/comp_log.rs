//! C14: RaftLog (storage + unstable + pending snapshot) against a plain sequence model.

use proptest::collection::vec;
use proptest::prelude::*;
use raft::eraftpb::{ConfState, Entry, Snapshot};
use raft::{Config, Error, GetEntriesContext, RaftLog, StorageError};
use serde::Serialize;

use crate::store::{encode_snap_data, SimStore, StoreCore};

#[derive(Clone, Debug, Serialize, serde::Deserialize)]
pub enum LogOp {
    /// leader-style append of n entries at the current term (+bump)
    Append { n: u8, bump: u8, size: u8 },
    /// follower-style maybe_append: previous entry `prev_back` before last; `agree` entries
    /// equal to the local ones, then `extra` new ones at a higher term; wrong_term: anchor term mismatch
    MaybeAppend { prev_back: u8, agree: u8, extra: u8, commit_fwd: u8, wrong_term: bool, size: u8 },
    CommitTo { fwd: u8 },
    /// write everything unstable to storage and mark it stable (what a Ready round does)
    Stabilize,
    MaybePersist { back: u8, stale_term: bool },
    Restore { fwd: u8, bump: u8 },
    AppliedTo { fwd: u8 },
    Compact { back: u8 },
    SetApplyLimit { l: u8 },
}

#[derive(Clone, Debug, Serialize, serde::Deserialize)]
pub struct LogCase {
    pub ops: Vec<LogOp>,
    pub probes: Vec<(u8, u8, u8)>,
}

pub fn log_strategy(max_ops: usize) -> impl Strategy<Value = LogCase> {
    let op = prop_oneof![
        5 => (1u8..4, 0u8..2, 0u8..30).prop_map(|(n, bump, size)| LogOp::Append { n, bump, size }),
        6 => (0u8..6, 0u8..4, 0u8..4, 0u8..6, prop::bool::weighted(0.15), 0u8..30)
            .prop_map(|(prev_back, agree, extra, commit_fwd, wrong_term, size)| LogOp::MaybeAppend { prev_back, agree, extra, commit_fwd, wrong_term, size }),
        3 => (0u8..5).prop_map(|fwd| LogOp::CommitTo { fwd }),
        5 => Just(LogOp::Stabilize),
        4 => (0u8..5, prop::bool::weighted(0.3)).prop_map(|(back, stale_term)| LogOp::MaybePersist { back, stale_term }),
        1 => (0u8..5, 0u8..2).prop_map(|(fwd, bump)| LogOp::Restore { fwd, bump }),
        3 => (0u8..5).prop_map(|fwd| LogOp::AppliedTo { fwd }),
        2 => (0u8..4).prop_map(|back| LogOp::Compact { back }),
        1 => (0u8..3).prop_map(|l| LogOp::SetApplyLimit { l }),
    ];
    (vec(op, 0..max_ops), vec((any::<u8>(), any::<u8>(), any::<u8>()), 2..6)).prop_map(|(ops, probes)| LogCase { ops, probes })
}

#[derive(Default, Debug)]
pub struct LogStats {
    pub trunc_at_or_below_offset: bool,
    pub persist_refused_by_guard: bool,
    pub restore_over_nonempty: bool,
    pub slice_spanning: bool,
    pub truncations: u32,
}

#[derive(Clone, Debug, PartialEq)]
struct ME {
    index: u64,
    term: u64,
    data: Vec<u8>,
}

struct Model {
    base: u64,
    base_term: u64,
    ents: Vec<ME>, // logical log after base
    /// first index not yet written to storage
    offset: u64,
    pending_snap: Option<(u64, u64)>,
    committed: u64,
    applied: u64,
    persisted: u64,
    limit: u64,
    /// Ready records not yet reported persisted: (snapshot idx, last entry (idx, term))
    records: Vec<(Option<u64>, Option<(u64, u64)>)>,
}

impl Model {
    fn last(&self) -> u64 {
        self.base + self.ents.len() as u64
    }
    fn get(&self, i: u64) -> Option<&ME> {
        if i <= self.base || i > self.last() {
            None
        } else {
            Some(&self.ents[(i - self.base - 1) as usize])
        }
    }
    fn term(&self, i: u64) -> u64 {
        if i == self.base {
            self.base_term
        } else {
            self.get(i).map_or(0, |e| e.term)
        }
    }
    fn last_term(&self) -> u64 {
        self.term(self.last())
    }
}

fn to_entry(e: &ME) -> Entry {
    let mut x = Entry::default();
    x.index = e.index;
    x.term = e.term;
    x.data = e.data.clone().into();
    x
}

fn limit(ents: &[ME], max: Option<u64>) -> Vec<ME> {
    use protobuf::Message;
    let max = match max {
        None => return ents.to_vec(),
        Some(u64::MAX) => return ents.to_vec(),
        Some(m) => m,
    };
    let mut out = vec![];
    let mut size = 0u64;
    for e in ents {
        size += to_entry(e).compute_size() as u64;
        if !out.is_empty() && size > max {
            break;
        }
        out.push(e.clone());
    }
    out
}

fn same(a: &[Entry], b: &[ME]) -> bool {
    a.len() == b.len() && a.iter().zip(b).all(|(x, y)| x.index == y.index && x.term == y.term && x.data[..] == y.data[..])
}

pub fn run_log(case: &LogCase, stats: &mut LogStats) -> Result<(), String> {
    let mut cs = ConfState::default();
    cs.voters = vec![1, 2, 3];
    let store = SimStore::new(StoreCore::bootstrap(3, 1, cs.clone()));
    let logger = slog::Logger::root(slog::Discard, slog::o!());
    let cfg = Config { id: 1, ..Default::default() };
    let mut rl = RaftLog::new(store.clone(), logger, &cfg);
    let mut m = Model { base: 3, base_term: 1, ents: vec![], offset: 4, pending_snap: None, committed: 3, applied: 3, persisted: 3, limit: 0, records: vec![] };
    let mut cur_term = 1u64;
    let mut salt = 0u8;
    check(&rl, &store, &m, case, stats).map_err(|e| format!("initially: {}", e))?;
    for (i, op) in case.ops.iter().enumerate() {
        salt = salt.wrapping_add(1);
        let committed_prefix: Vec<ME> = m.ents.iter().filter(|e| e.index <= m.committed).cloned().collect();
        match op {
            LogOp::Append { n, bump, size } => {
                cur_term = cur_term.max(m.last_term()) + *bump as u64;
                let start = m.last() + 1;
                let new: Vec<ME> = (0..*n as u64).map(|k| ME { index: start + k, term: cur_term, data: vec![salt; *size as usize] }).collect();
                let ents: Vec<Entry> = new.iter().map(to_entry).collect();
                let r = rl.append(&ents);
                m.ents.extend(new);
                if r != m.last() {
                    return Err(format!("op {}: append returned {} but last index is {}", i, r, m.last()));
                }
            }
            LogOp::MaybeAppend { prev_back, agree, extra, commit_fwd, wrong_term, size } => {
                let lo = m.base.max(m.committed.saturating_sub(2));
                let mut prev = m.last().saturating_sub(*prev_back as u64);
                if prev < lo {
                    prev = lo;
                }
                let real_prev_term = m.term(prev);
                let prev_term = if *wrong_term { real_prev_term + 7 } else { real_prev_term };
                // entries: `agree` copies of local ones, then `extra` new ones at a higher term
                let mut ents: Vec<ME> = vec![];
                let mut idx = prev + 1;
                for _ in 0..*agree {
                    match m.get(idx) {
                        Some(e) => ents.push(e.clone()),
                        None => break,
                    }
                    idx += 1;
                }
                // a divergence at or below the commit index is outside the contract (documented panic)
                let diverge_ok = idx > m.committed;
                if *extra > 0 && diverge_ok {
                    let t = cur_term.max(m.last_term()).max(m.term(idx.saturating_sub(1))) + 1;
                    cur_term = t;
                    for k in 0..*extra as u64 {
                        ents.push(ME { index: idx + k, term: t, data: vec![salt ^ 0x55; *size as usize] });
                    }
                }
                let msg: Vec<Entry> = ents.iter().map(to_entry).collect();
                let leader_commit = m.committed + *commit_fwd as u64;
                let r = rl.maybe_append(prev, prev_term, leader_commit, &msg);
                if *wrong_term {
                    if r.is_some() {
                        return Err(format!("op {}: maybe_append accepted an anchor ({}, {}) whose term does not match {}", i, prev, prev_term, real_prev_term));
                    }
                } else {
                    // model
                    let mut conflict = 0u64;
                    for e in &ents {
                        if m.term(e.index) != e.term || m.get(e.index).is_none() {
                            conflict = e.index;
                            break;
                        }
                    }
                    let last_new = prev + ents.len() as u64;
                    if conflict != 0 {
                        if conflict <= m.last() {
                            stats.truncations += 1;
                            if conflict <= m.offset {
                                stats.trunc_at_or_below_offset = true;
                            }
                        }
                        m.ents.truncate((conflict - m.base - 1) as usize);
                        m.ents.extend(ents.iter().filter(|e| e.index >= conflict).cloned());
                        if conflict < m.offset {
                            m.offset = conflict;
                        }
                        if m.persisted > conflict - 1 {
                            m.persisted = conflict - 1;
                        }
                    }
                    let c = leader_commit.min(last_new);
                    if c > m.committed {
                        m.committed = c;
                    }
                    if r != Some((conflict, last_new)) {
                        return Err(format!("op {}: maybe_append({}, {}, commit {}, {} entries) = {:?}, model says {:?}", i, prev, prev_term, leader_commit, ents.len(), r, (conflict, last_new)));
                    }
                }
            }
            LogOp::CommitTo { fwd } => {
                let to = (m.committed + *fwd as u64).min(m.last());
                rl.commit_to(to);
                if to > m.committed {
                    m.committed = to;
                }
            }
            LogOp::Stabilize => {
                // what RawNode::ready + the application + advance_append_async do
                let snap = rl.unstable_snapshot().clone();
                let ents = rl.unstable_entries().to_vec();
                let mut rec = (None, None);
                if let Some(s) = &snap {
                    store.0.borrow_mut().install_snapshot(s).map_err(|e| format!("op {}: {}", i, e))?;
                    rl.stable_snap(s.get_metadata().index);
                    rec.0 = Some(s.get_metadata().index);
                    m.pending_snap = None;
                }
                if let Some(l) = ents.last() {
                    store.0.borrow_mut().append(&ents).map_err(|e| format!("op {}: unstable entries cannot be written: {}", i, e))?;
                    rl.stable_entries(l.index, l.term);
                    rec.1 = Some((l.index, l.term));
                    m.offset = l.index + 1;
                }
                if rec.0.is_some() || rec.1.is_some() {
                    m.records.push(rec);
                }
            }
            LogOp::MaybePersist { back, stale_term } => {
                // persistence notice for the oldest outstanding record, or an arbitrary (index, term)
                if let (Some(rec), false) = (m.records.first().cloned(), *stale_term) {
                    m.records.remove(0);
                    if let Some(si) = rec.0 {
                        // precondition of maybe_persist_snap holds by construction of the record
                        if si <= m.committed && si < m.offset {
                            let r = rl.maybe_persist_snap(si);
                            let want = si > m.persisted;
                            if want {
                                m.persisted = si;
                            }
                            if r != want {
                                return Err(format!("op {}: maybe_persist_snap({}) = {}, model says {}", i, si, r, want));
                            }
                        }
                    }
                    if let Some((idx, term)) = rec.1 {
                        persist(&mut rl, &store, &mut m, idx, term, i, stats)?;
                    }
                } else {
                    let idx = m.last().saturating_sub(*back as u64).max(1);
                    let term = if *stale_term { m.term(idx) + 3 } else { m.term(idx) };
                    persist(&mut rl, &store, &mut m, idx, term, i, stats)?;
                }
            }
            LogOp::Restore { fwd, bump } => {
                let idx = m.committed + *fwd as u64;
                let term = m.term(idx).max(m.last_term()).max(cur_term) + *bump as u64;
                cur_term = cur_term.max(term);
                let mut s = Snapshot::default();
                s.data = encode_snap_data(idx, 42).into();
                s.mut_metadata().index = idx;
                s.mut_metadata().term = term;
                s.mut_metadata().set_conf_state(cs.clone());
                if !m.ents.is_empty() {
                    stats.restore_over_nonempty = true;
                }
                rl.restore(s);
                if m.persisted > m.committed {
                    m.persisted = m.committed;
                }
                m.committed = idx;
                m.base = idx;
                m.base_term = term;
                m.ents.clear();
                m.offset = idx + 1;
                m.pending_snap = Some((idx, term));
            }
            LogOp::AppliedTo { fwd } => {
                let to = (m.applied + *fwd as u64).min(m.committed);
                if to >= m.applied && to > 0 {
                    #[allow(deprecated)]
                    rl.applied_to(to);
                    m.applied = to;
                }
            }
            LogOp::Compact { back } => {
                // compaction of applied, stored entries only
                let store_last = store.0.borrow().last_index();
                let to = m.applied.saturating_sub(*back as u64).min(store_last);
                let sb = store.0.borrow().snap_index;
                if m.pending_snap.is_none() && to > sb && to < m.offset {
                    store.0.borrow_mut().app.applied = m.applied;
                    store.0.borrow_mut().compact(to);
                    if store.0.borrow().snap_index == to {
                        let t = m.term(to);
                        let drop = (to - m.base) as usize;
                        m.ents.drain(..drop);
                        m.base = to;
                        m.base_term = t;
                    }
                }
            }
            LogOp::SetApplyLimit { l } => {
                rl.max_apply_unpersisted_log_limit = *l as u64;
                m.limit = *l as u64;
            }
        }
        // nothing at or below the (previous) commit index changed, unless a snapshot now covers it
        for e in &committed_prefix {
            if e.index > m.base {
                if m.get(e.index) != Some(e) {
                    return Err(format!("op {} {:?}: model bug or contract breach: committed entry {} changed", i, op, e.index));
                }
            }
        }
        check(&rl, &store, &m, case, stats).map_err(|e| format!("after op {} {:?}: {}", i, op, e))?;
    }
    Ok(())
}

fn persist(rl: &mut RaftLog<SimStore>, store: &SimStore, m: &mut Model, idx: u64, term: u64, i: usize, stats: &mut LogStats) -> Result<(), String> {
    let first_update = m.pending_snap.map_or(m.offset, |s| s.0);
    let stored_term = store.0.borrow().term_of(idx);
    let want = idx > m.persisted && idx < first_update && stored_term == Some(term);
    if idx > m.persisted && stored_term == Some(term) && idx >= first_update {
        stats.persist_refused_by_guard = true;
    }
    let r = rl.maybe_persist(idx, term);
    if want {
        m.persisted = idx;
    }
    if r != want {
        return Err(format!("op {}: maybe_persist({}, {}) = {}, model says {} (persisted {}, first unstable {})", i, idx, term, r, want, m.persisted, first_update));
    }
    Ok(())
}

fn check(rl: &RaftLog<SimStore>, store: &SimStore, m: &Model, case: &LogCase, stats: &mut LogStats) -> Result<(), String> {
    let first = m.base + 1;
    let last = m.last();
    if rl.first_index() != first {
        return Err(format!("first_index() = {} but model says {}", rl.first_index(), first));
    }
    if rl.last_index() != last {
        return Err(format!("last_index() = {} but model says {}", rl.last_index(), last));
    }
    if rl.committed != m.committed || rl.applied != m.applied || rl.persisted != m.persisted {
        return Err(format!(
            "cursors (committed, applied, persisted) = ({}, {}, {}) but model says ({}, {}, {})",
            rl.committed, rl.applied, rl.persisted, m.committed, m.applied, m.persisted
        ));
    }
    if !(m.applied <= m.committed && m.committed <= last) {
        return Err(format!("applied {} <= committed {} <= last {} violated", m.applied, m.committed, last));
    }
    // persisted never exceeds what stable storage holds with matching terms
    {
        let c = store.0.borrow();
        if rl.persisted > c.last_index() && m.pending_snap.is_none() {
            return Err(format!("persisted {} exceeds the stored last index {}", rl.persisted, c.last_index()));
        }
        if rl.persisted > m.base && m.pending_snap.is_none() {
            if c.term_of(rl.persisted) != Some(m.term(rl.persisted)) {
                return Err(format!("persisted index {} has term {:?} in storage but {} in the log", rl.persisted, c.term_of(rl.persisted), m.term(rl.persisted)));
            }
        }
    }
    for i in first.saturating_sub(2)..=last + 2 {
        let want = if i + 1 < first || i > last { 0 } else { m.term(i) };
        match rl.term(i) {
            Ok(t) if t == want => {}
            r => return Err(format!("term({}) = {:?} but model says {} (first {}, last {})", i, r, want, first, last)),
        }
        if rl.match_term(i, want) != (want != 0 || i + 1 < first || i > last) && want != 0 {
            return Err(format!("match_term({}, {}) is false", i, want));
        }
        if want != 0 && rl.match_term(i, want + 1) {
            return Err(format!("match_term({}, {}) is true", i, want + 1));
        }
    }
    if rl.last_term() != m.last_term() {
        return Err(format!("last_term() = {} but model says {}", rl.last_term(), m.last_term()));
    }
    let un: Vec<ME> = m.ents.iter().filter(|e| e.index >= m.offset).cloned().collect();
    if !same(rl.unstable_entries(), &un) {
        return Err(format!("unstable_entries() has {} entries, model {} from offset {}", rl.unstable_entries().len(), un.len(), m.offset));
    }
    if rl.unstable_snapshot().as_ref().map(|s| (s.get_metadata().index, s.get_metadata().term)) != m.pending_snap {
        return Err("pending snapshot differs from the model".to_string());
    }
    if !same(&rl.all_entries(), &m.ents) {
        return Err("all_entries() differs from the model".to_string());
    }
    let (ci, ct) = rl.commit_info();
    if ci != m.committed || ct != m.term(m.committed) {
        return Err(format!("commit_info() = ({}, {}) but model says ({}, {})", ci, ct, m.committed, m.term(m.committed)));
    }
    // probes: slices, conflict search, up-to-date
    let n = m.ents.len() as u64;
    for (a, b, c) in &case.probes {
        let max = match *c % 5 {
            0 => None,
            1 => Some(0u64),
            2 => Some(*c as u64),
            3 => Some(*c as u64 * 3),
            _ => Some(u64::MAX),
        };
        if n > 0 {
            let lo = first + (*a as u64 % n);
            let hi = lo + (*b as u64 % (last + 2 - lo));
            let all: Vec<ME> = m.ents.iter().filter(|e| e.index >= lo && e.index < hi).cloned().collect();
            let want = limit(&all, max);
            if lo < m.offset && hi > m.offset && m.pending_snap.is_none() {
                stats.slice_spanning = true;
            }
            match rl.slice(lo, hi, max, GetEntriesContext::empty(false)) {
                Ok(r) => {
                    if !same(&r, &want) {
                        return Err(format!(
                            "slice({}, {}, {:?}) = {:?} but model says {:?}",
                            lo, hi, max,
                            r.iter().map(|e| (e.index, e.term)).collect::<Vec<_>>(),
                            want.iter().map(|e| (e.index, e.term)).collect::<Vec<_>>()
                        ));
                    }
                    if hi > lo && r.is_empty() {
                        return Err(format!("slice({}, {}, {:?}) is empty", lo, hi, max));
                    }
                }
                Err(e) => return Err(format!("slice({}, {}, {:?}) failed: {:?}", lo, hi, max, e)),
            }
            let wante = limit(&m.ents.iter().filter(|e| e.index >= lo).cloned().collect::<Vec<_>>(), max);
            match rl.entries(lo, max, GetEntriesContext::empty(false)) {
                Ok(r) if same(&r, &wante) => {}
                r => return Err(format!("entries({}, {:?}) = {:?}, model has {} entries", lo, max, r.map(|v| v.len()), wante.len())),
            }
            // find_conflict on a window of the log with a possibly different tail term
            let probe: Vec<Entry> = all
                .iter()
                .enumerate()
                .map(|(k, e)| {
                    let mut x = to_entry(e);
                    if *c & 0x40 != 0 && k + 1 == all.len() {
                        x.term += 1;
                    }
                    x
                })
                .collect();
            if !probe.is_empty() {
                let want_c = probe.iter().find(|e| m.term(e.index) != e.term || m.get(e.index).is_none()).map_or(0, |e| e.index);
                let got_c = rl.find_conflict(&probe);
                if got_c != want_c {
                    return Err(format!("find_conflict(window {}..{}) = {} but model says {}", lo, hi, got_c, want_c));
                }
            }
        }
        if first > 1 && first > store.0.borrow().snap_index.min(m.base) {
            if let Ok(r) = rl.slice(first - 1, first, None, GetEntriesContext::empty(false)) {
                return Err(format!("slice below the first index returned {} entries instead of Compacted", r.len()));
            }
        }
        let _ = Error::Store(StorageError::Compacted);
        // find_conflict_by_term(index <= last, term)
        let idx = m.base + (*a as u64 % (n + 1));
        let t = m.term(idx).saturating_sub((*b % 3) as u64) + (*c % 2) as u64;
        let mut k = idx;
        let want_ft = loop {
            if k + 1 < first {
                break (k, Some(0));
            }
            let kt = if k + 1 < first { 0 } else { m.term(k) };
            if kt > t {
                k -= 1;
            } else {
                break (k, Some(kt));
            }
        };
        let got_ft = rl.find_conflict_by_term(idx, t);
        if got_ft != want_ft {
            return Err(format!("find_conflict_by_term({}, {}) = {:?} but model says {:?}", idx, t, got_ft, want_ft));
        }
        // is_up_to_date
        let (qi, qt) = (m.last().saturating_sub((*a % 3) as u64) + (*b % 2) as u64, m.last_term().saturating_sub((*c % 2) as u64) + (*a % 2) as u64);
        let want_u = qt > m.last_term() || (qt == m.last_term() && qi >= m.last());
        if rl.is_up_to_date(qi, qt) != want_u {
            return Err(format!("is_up_to_date({}, {}) = {} with last ({}, {})", qi, qt, !want_u, m.last(), m.last_term()));
        }
        // next_entries_since
        let since = m.applied.saturating_sub((*b % 2) as u64) + (*c % 2) as u64;
        let off = (since + 1).max(first);
        let high = m.committed.min(m.persisted + m.limit) + 1;
        let want_n: Option<Vec<ME>> = if high > off { Some(limit(&m.ents.iter().filter(|e| e.index >= off && e.index < high).cloned().collect::<Vec<_>>(), max)) } else { None };
        if rl.has_next_entries_since(since) != want_n.is_some() {
            return Err(format!("has_next_entries_since({}) = {} (committed {}, persisted {}, limit {})", since, want_n.is_none(), m.committed, m.persisted, m.limit));
        }
        if high <= last + 1 {
            let got_n = rl.next_entries_since(since, max);
            match (&got_n, &want_n) {
                (Some(g), Some(w)) if same(g, w) => {}
                (None, None) => {}
                _ => return Err(format!("next_entries_since({}, {:?}) = {:?} entries, model {:?}", since, max, got_n.map(|v| v.len()), want_n.map(|v| v.len()))),
            }
        }
    }
    Ok(())
}
