//! Structured scenarios: C16 `lockstep` (a leader and a majority exchanging
//! heartbeats on schedule against an adversarial minority) and C17 `handoff`
//! (a transfer run to quiescence in a healthy cluster).

use raft::eraftpb::MessageType;
use raft::StateRole;

use crate::case::*;
use crate::mon::Mon;
use crate::obs::*;
use crate::world::*;

impl World {
    /// Delivers (FIFO, to quiescence) the in-flight messages whose both endpoints are in `m`,
    /// processing the Readys of the members of `m` in between.
    fn majority_quiesce(&mut self, m: &[usize]) {
        for _ in 0..12 {
            if self.dead {
                return;
            }
            let mut progressed = false;
            for ni in m {
                if self.process_node(*ni) {
                    progressed = true;
                }
            }
            let mut rest = std::collections::VecDeque::new();
            let mut mine = vec![];
            while let Some(x) = self.net.pop_front() {
                let f = (x.0.from as usize).wrapping_sub(1);
                let t = (x.0.to as usize).wrapping_sub(1);
                if m.contains(&f) && m.contains(&t) {
                    mine.push(x);
                } else {
                    rest.push_back(x);
                }
            }
            self.net = rest;
            for (msg, meta) in mine {
                self.deliver_msg(msg, meta);
                progressed = true;
            }
            if !progressed {
                break;
            }
        }
    }

    /// C16 oracle 3.
    pub fn run_lockstep(case: &Case, mon: Mon, options: u32, trace: bool) -> RunOutcome {
        let mut sc = case.scenario.clone();
        sc.pre_vote = true;
        sc.check_quorum = true;
        sc.lease_read = false;
        sc.warm = true;
        sc.outgoing.clear();
        sc.learners_next.clear();
        sc.auto_leave = false;
        if sc.voters.len() < 3 {
            sc.voters = vec![1, 2, 3];
            sc.learners.retain(|l| *l > 3);
        }
        for n in sc.nodes.iter_mut() {
            n.priority = 0;
        }
        let mut w = World::new(&sc, mon, options);
        w.strict_nodes = true;
        if trace {
            w.trace = Some(vec![]);
        }
        // Prelude (half of the cases): a minority voter pre-campaigns before any leader exists; the
        // majority members' answers are delayed in the network and become stale (pre-)vote traffic
        // for the adversary to deliver during the lock-step phase.
        let q0 = sc.voters.len() / 2 + 1;
        let mut stash: Vec<(raft::eraftpb::Message, MsgMeta)> = vec![];
        if sc.timeouts.first().map_or(false, |b| b & 1 == 1) && sc.voters.len() > q0 {
            let x = q0; // index of the first minority voter
            w.tick_until_timeout(x);
            w.process_node(x);
            let mut keep = std::collections::VecDeque::new();
            let mut reqs = vec![];
            while let Some(m) = w.net.pop_front() {
                if m.0.from == (x + 1) as u64 && (m.0.to as usize) <= q0 {
                    reqs.push(m);
                } else {
                    keep.push_back(m);
                }
            }
            w.net = keep;
            for (m, meta) in reqs {
                w.deliver_msg(m, meta);
            }
            for ni in 0..q0 {
                w.process_node(ni);
            }
            // hold the answers back
            while let Some(m) = w.net.pop_front() {
                stash.push(m);
            }
        }
        w.warm_up();
        // leader L = node 1 after the warm-up (all timeouts equal otherwise); majority M = first q voters
        let q = sc.voters.len() / 2 + 1;
        let m: Vec<usize> = (0..q).collect();
        let minority: Vec<usize> = (q..NN).collect();
        let li = 0usize;
        let ok = w.nodes[li].rn.as_ref().map_or(false, |rn| rn.raft.state == StateRole::Leader);
        if !ok || w.dead {
            return w.finish();
        }
        w.settle(3);
        // the delayed answers of the prelude are still in flight: stale (pre-)vote traffic
        for m in stash {
            w.net.push_back(m);
        }
        let lterm = w.nodes[li].rn.as_ref().unwrap().raft.term;
        let terms: Vec<u64> = m.iter().map(|i| w.nodes[*i].rn.as_ref().unwrap().raft.term).collect();
        if terms.iter().any(|t| *t != lterm) {
            return w.finish();
        }
        let mut step = 0usize;
        let mut pre_candidacies = 0u32;
        let mut reached_m = false;
        for op in &case.ops {
            if w.dead {
                break;
            }
            // ---- the minority's (and the network's) generated behaviour
            let mapped: Option<Op> = match op {
                Op::Tick { n, k } => Some(Op::Tick { n: (minority[*n as usize % minority.len()] + 1) as u8, k: *k }),
                Op::TickUntilTimeout { n } => Some(Op::TickUntilTimeout { n: (minority[*n as usize % minority.len()] + 1) as u8 }),
                Op::TickAll { k } => {
                    for ni in &minority {
                        for _ in 0..*k {
                            if w.nodes[*ni].up() && !w.dead {
                                w.call(*ni, CallKind::Tick, |rn| rn.tick());
                            }
                        }
                    }
                    None
                }
                Op::Campaign { n } => Some(Op::Campaign { n: (minority[*n as usize % minority.len()] + 1) as u8 }),
                Op::Crash { n } => Some(Op::Crash { n: (minority[*n as usize % minority.len()] + 1) as u8 }),
                Op::Restart { n } => Some(Op::Restart { n: (minority[*n as usize % minority.len()] + 1) as u8 }),
                Op::ReadyStep { n, crash_at, lazy_hs, apply_inline, force_sync } => {
                    Some(Op::ReadyStep { n: (minority[*n as usize % minority.len()] + 1) as u8, crash_at: *crash_at, lazy_hs: *lazy_hs, apply_inline: *apply_inline, force_sync: *force_sync })
                }
                Op::Fsync { n, upto } => Some(Op::Fsync { n: (minority[*n as usize % minority.len()] + 1) as u8, upto: *upto }),
                Op::Apply { n, count } => Some(Op::Apply { n: (minority[*n as usize % minority.len()] + 1) as u8, count: *count }),
                Op::Partition { mask } => {
                    // isolate / rejoin the minority as a whole (majority members stay connected)
                    let mut bits = 0u8;
                    for ni in &minority {
                        if mask >> (ni % 6) & 1 == 1 {
                            bits |= 1 << ni;
                        }
                    }
                    w.part = if bits == 0 { None } else { Some(bits) };
                    None
                }
                Op::Heal => Some(Op::Heal),
                // the leader compacts its applied log (a lagging minority node then needs a snapshot)
                Op::Compact { back, .. } => Some(Op::Compact { n: (li + 1) as u8, back: *back }),
                Op::ReportSnapshot { k, ok } => Some(Op::ReportSnapshot { k: *k, ok: *ok }),
                Op::Deliver { k } | Op::Dup { k } | Op::Drop { k } => {
                    // any in-flight message that involves a minority node
                    let idxs: Vec<usize> = w
                        .net
                        .iter()
                        .enumerate()
                        .filter(|(_, x)| {
                            let f = (x.0.from as usize).wrapping_sub(1);
                            let t = (x.0.to as usize).wrapping_sub(1);
                            !(m.contains(&f) && m.contains(&t))
                        })
                        .map(|(i, _)| i)
                        .collect();
                    if !idxs.is_empty() {
                        let i = idxs[(*k as usize * idxs.len()) >> 16];
                        match op {
                            Op::Deliver { .. } => {
                                let (msg, meta) = w.net.remove(i).unwrap();
                                if m.contains(&((msg.to as usize).wrapping_sub(1)))
                                    && matches!(msg.get_msg_type(), MessageType::MsgRequestVote | MessageType::MsgRequestPreVote | MessageType::MsgAppendResponse | MessageType::MsgHeartbeatResponse)
                                {
                                    reached_m = true;
                                }
                                w.deliver_msg(msg, meta);
                            }
                            Op::Dup { .. } => {
                                let (msg, meta) = w.net[i].clone();
                                w.deliver_msg(msg, meta);
                            }
                            _ => {
                                w.net.remove(i);
                            }
                        }
                    }
                    None
                }
                Op::DeliverTo { n } => {
                    // the oldest in-flight message to that node that involves a minority node
                    let to = (w.node_index(*n) + 1) as u64;
                    let pos = w.net.iter().position(|x| {
                        let f = (x.0.from as usize).wrapping_sub(1);
                        let t = (x.0.to as usize).wrapping_sub(1);
                        x.0.to == to && !(m.contains(&f) && m.contains(&t))
                    });
                    if let Some(i) = pos {
                        let (msg, meta) = w.net.remove(i).unwrap();
                        if m.contains(&((msg.to as usize).wrapping_sub(1))) {
                            reached_m = true;
                        }
                        w.deliver_msg(msg, meta);
                    }
                    None
                }
                Op::Propose { len, ctx, .. } => Some(Op::Propose { n: (li + 1) as u8, len: *len, ctx: *ctx }),
                Op::Settle { .. } => {
                    // the minority catches up on its own Readys
                    for ni in &minority {
                        w.process_node(*ni);
                    }
                    None
                }
                _ => None,
            };
            let before: Vec<StateRole> = minority.iter().map(|i| w.nodes[*i].rn.as_ref().map_or(StateRole::Follower, |r| r.raft.state)).collect();
            if let Some(o) = mapped {
                w.exec_inner(&o);
            }
            for (k, i) in minority.iter().enumerate() {
                if let Some(rn) = w.nodes[*i].rn.as_ref() {
                    if rn.raft.state == StateRole::PreCandidate && before[k] != StateRole::PreCandidate {
                        pre_candidacies += 1;
                    }
                }
            }
            // ---- the majority's schedule: one step of the lock-step round
            let phase = step % (q + 1);
            step += 1;
            if phase < q {
                let ni = m[phase];
                if w.nodes[ni].up() && !w.dead {
                    w.call(ni, CallKind::Tick, |rn| rn.tick());
                }
            } else {
                w.majority_quiesce(&m);
            }
            // ---- oracle
            if w.dead {
                break;
            }
            let lr = &w.nodes[li].rn.as_ref().unwrap().raft;
            if lr.state != StateRole::Leader || lr.term != lterm {
                let d = format!(
                    "leader {} of the lock-step majority {:?} is now {:?} at term {} (was Leader at term {})",
                    li + 1, m.iter().map(|i| i + 1).collect::<Vec<_>>(), lr.state, lr.term, lterm
                );
                w.mon.violation("C16", "lockstep-leader-deposed", d, w.op_index);
                break;
            }
            for i in &m {
                let t = w.nodes[*i].rn.as_ref().unwrap().raft.term;
                if t != lterm {
                    let d = format!("member {} of the lock-step majority changed its term {} -> {}", i + 1, lterm, t);
                    w.mon.violation("C16", "lockstep-member-term-changed", d, w.op_index);
                    break;
                }
            }
            w.op_index += 1;
            w.stats.ops += 1;
        }
        if pre_candidacies >= 2 && reached_m {
            w.mon.flags |= crate::mon::F_PREVOTE_NONTRIVIAL;
        }
        w.finish()
    }

    /// C17 scenario: healthy synchronous cluster in a generated replication state, then one
    /// transfer run to quiescence.
    pub fn run_handoff(case: &Case, mon: Mon, options: u32, trace: bool) -> RunOutcome {
        let mut sc = case.scenario.clone();
        sc.warm = true;
        sc.outgoing.clear();
        sc.learners_next.clear();
        sc.auto_leave = false;
        if sc.voters.len() < 2 {
            sc.voters = vec![1, 2, 3];
            sc.learners.retain(|l| *l > 3);
        }
        for n in sc.nodes.iter_mut() {
            n.priority = 0;
        }
        let mut w = World::new(&sc, mon, options);
        if trace {
            w.trace = Some(vec![]);
        }
        w.warm_up();
        let li = 0usize;
        if w.dead || !w.nodes[li].rn.as_ref().map_or(false, |rn| rn.raft.state == StateRole::Leader) {
            return w.finish();
        }
        // generated replication state: proposals, partial deliveries, ticks - no faults
        let mut target: Option<u64> = None;
        for op in &case.ops {
            if w.dead {
                break;
            }
            match op {
                Op::Propose { .. } | Op::Deliver { .. } | Op::DeliverTo { .. } | Op::ReadyStep { .. } | Op::Fsync { .. } | Op::Apply { .. } | Op::TickAll { .. } => {
                    let o = match op {
                        Op::Propose { len, ctx, .. } => Op::Propose { n: (li + 1) as u8, len: *len, ctx: *ctx },
                        Op::ReadyStep { n, .. } => Op::ReadyStep { n: *n, crash_at: 0, lazy_hs: false, apply_inline: true, force_sync: false },
                        Op::TickAll { .. } => Op::TickAll { k: 1 },
                        o => o.clone(),
                    };
                    w.exec(&o);
                }
                Op::Transfer { target: t, .. } if target.is_none() => {
                    let t = *t as u64;
                    let is_voter = sc.voters.contains(&t);
                    let healthy = w.nodes[li].rn.as_ref().map_or(false, |rn| rn.raft.state == StateRole::Leader)
                        && (0..NN).all(|i| w.nodes[i].rn.as_ref().map_or(true, |rn| rn.raft.term <= w.nodes[li].rn.as_ref().unwrap().raft.term));
                    if !healthy {
                        return w.finish();
                    }
                    if is_voter && t != (li + 1) as u64 {
                        target = Some(t);
                        let lagging = w.nodes[li].rn.as_ref().unwrap().raft.prs().get(t).map_or(false, |p| p.matched < w.nodes[li].rn.as_ref().unwrap().raft.raft_log.last_index());
                        if lagging {
                            w.mon.flags |= crate::mon::F_TRANSFER_NONTRIVIAL;
                        }
                        w.exec(&Op::Transfer { n: (li + 1) as u8, target: t as u8 });
                        break;
                    }
                }
                _ => {}
            }
        }
        let t = match target {
            Some(t) => t,
            None => return w.finish(),
        };
        if w.dead {
            return w.finish();
        }
        let old_term = w.nodes[li].rn.as_ref().unwrap().raft.term;
        let committed_before = w.mon.g.maxcommit;
        // run to quiescence (no ticks needed beyond a few heartbeats)
        // (every node ticks at the same rate; the check is made at the first quiescent point at
        // which the target leads)
        for _ in 0..6 {
            w.settle(3);
            if w.dead {
                return w.finish();
            }
            if w.nodes[(t - 1) as usize].rn.as_ref().map_or(false, |rn| rn.raft.state == StateRole::Leader) {
                break;
            }
            w.exec_inner(&Op::TickAll { k: 1 });
        }
        w.settle(3);
        if w.dead {
            return w.finish();
        }
        let ti = (t - 1) as usize;
        let tr = &w.nodes[ti].rn.as_ref().unwrap().raft;
        w.stats.transfers += 1;
        if tr.state == StateRole::Leader {
            w.mon.b.handoffs_completed += 1;
            let tterm = tr.term;
            let tlog = log_view(w.nodes[ti].rn.as_ref().unwrap());
            let mut problems = vec![];
            if tterm <= old_term {
                problems.push(format!("target {} leads term {} which is not above the old leader's term {}", t, tterm, old_term));
            }
            for i in (w.mon.g.s0 + 1)..=committed_before {
                if let Some(Some(c)) = w.mon.g.cl.get(i as usize) {
                    if i > tlog.base && tlog.get(i) != Some(*c) {
                        problems.push(format!("target {} does not hold committed entry {}", t, i));
                        break;
                    }
                }
            }
            let or = &w.nodes[li].rn.as_ref().unwrap().raft;
            if !(or.state == StateRole::Follower && or.term == tterm && or.leader_id == t) {
                problems.push(format!("old leader {} is {:?} at term {} following {} (expected follower of {} at term {})", li + 1, or.state, or.term, or.leader_id, t, tterm));
            }
            if let Some(p) = problems.first() {
                let d = p.clone();
                w.mon.violation("C17", "handoff-outcome", d, w.op_index);
            }
        }
        w.finish()
    }
}
