//! Component model-based checks C18 (Inflights) and C19 (MemStorage).

use std::collections::VecDeque;

use proptest::collection::vec;
use proptest::prelude::*;
use raft::eraftpb::{ConfState, Entry, HardState, Snapshot};
use raft::storage::MemStorage;
use raft::{Error, GetEntriesContext, Inflights, Storage, StorageError};
use serde::Serialize;

// ============================================================================ C18

#[derive(Clone, Debug, Serialize, serde::Deserialize)]
pub enum InfOp {
    Add(u8),
    FreeTo(u8),
    FreeFirst,
    Reset,
    SetCap(u8),
    MaybeFree,
}

#[derive(Clone, Debug, Serialize, serde::Deserialize)]
pub struct InfCase {
    pub cap: u8,
    pub ops: Vec<InfOp>,
}

pub fn inf_strategy(max_ops: usize) -> impl Strategy<Value = InfCase> {
    let op = prop_oneof![
        6 => (1u8..4).prop_map(InfOp::Add),
        3 => (0u8..12).prop_map(InfOp::FreeTo),
        2 => Just(InfOp::FreeFirst),
        1 => Just(InfOp::Reset),
        2 => (0u8..=10).prop_map(InfOp::SetCap),
        1 => Just(InfOp::MaybeFree),
    ];
    ((0u8..=8), vec(op, 0..max_ops)).prop_map(|(cap, ops)| InfCase { cap, ops })
}

#[derive(Default, Debug)]
pub struct InfStats {
    pub wrapped_grow: bool,
    pub cap_changes_nonempty: u32,
    pub adds: u32,
    pub frees: u32,
}

struct InfModel {
    q: VecDeque<u64>,
    cap: usize,
    pending: Option<usize>,
}

impl InfModel {
    /// fullness the property pins down: definitely full / definitely not / either (shrink pending)
    fn full_range(&self) -> (bool, bool) {
        let c = self.q.len();
        match self.pending {
            None => (c == self.cap, c == self.cap),
            Some(p) => {
                // must be full at the old capacity; may already be full at the new one
                (c >= self.cap, c >= p.min(self.cap))
            }
        }
    }
    fn drained(&mut self) {
        if self.q.is_empty() {
            if let Some(p) = self.pending.take() {
                self.cap = p;
            }
        }
    }
}

/// Runs one case. Err(description) on a model mismatch.
pub fn run_inflights(case: &InfCase, stats: &mut InfStats) -> Result<(), String> {
    let mut real = Inflights::new(case.cap as usize);
    let mut m = InfModel { q: VecDeque::new(), cap: case.cap as usize, pending: None };
    let mut next: u64 = 1;
    // ring position model only for the "wrapped" statistic
    let mut start = 0usize;
    for (i, op) in case.ops.iter().enumerate() {
        match op {
            InfOp::Add(step) => {
                if real.full() {
                    let (must, _) = m.full_range();
                    let (_, may) = m.full_range();
                    if !must && !may {
                        return Err(format!("op {}: full() is true with {} of capacity {} (pending {:?})", i, m.q.len(), m.cap, m.pending));
                    }
                    continue;
                }
                next += *step as u64;
                real.add(next);
                m.q.push_back(next);
                stats.adds += 1;
            }
            InfOp::FreeTo(back) => {
                // any index: relative to the newest tracked index
                let to = next.saturating_sub(*back as u64);
                real.free_to(to);
                let before = m.q.len();
                while m.q.front().map_or(false, |v| *v <= to) {
                    m.q.pop_front();
                    start += 1;
                }
                if m.q.len() != before {
                    stats.frees += 1;
                    m.drained();
                }
            }
            InfOp::FreeFirst => {
                real.free_first_one();
                if m.q.pop_front().is_some() {
                    start += 1;
                    stats.frees += 1;
                    m.drained();
                }
            }
            InfOp::Reset => {
                real.reset();
                m.q.clear();
                if let Some(p) = m.pending.take() {
                    m.cap = p;
                }
                start = 0;
            }
            InfOp::SetCap(c) => {
                let c = *c as usize;
                if !m.q.is_empty() {
                    stats.cap_changes_nonempty += 1;
                    if c > m.cap && m.cap > 0 && (start % m.cap) + m.q.len() > m.cap {
                        stats.wrapped_grow = true;
                    }
                }
                real.set_cap(c);
                if c >= m.cap {
                    m.cap = c;
                    m.pending = None;
                } else if m.q.is_empty() {
                    m.cap = c;
                    m.pending = None;
                } else {
                    m.pending = Some(c);
                }
            }
            InfOp::MaybeFree => {
                real.maybe_free_buffer();
            }
        }
        // ---- observables after every op
        if real.count() != m.q.len() {
            return Err(format!("op {} {:?}: count() = {} but the model holds {} indexes {:?}", i, op, real.count(), m.q.len(), m.q));
        }
        let (must, may) = m.full_range();
        let f = real.full();
        if (must && !f) || (!may && f) {
            return Err(format!(
                "op {} {:?}: full() = {} with {} tracked, capacity {} pending {:?}",
                i, op, f, m.q.len(), m.cap, m.pending
            ));
        }
        // content and order: probe a copy with free_to around every model element
        let mut probe = real.clone();
        let mut left = m.q.len();
        for v in m.q.iter() {
            probe.free_to(*v - 1);
            if probe.count() != left {
                return Err(format!("op {} {:?}: free_to({}) on a copy removed something; model content {:?}", i, op, *v - 1, m.q));
            }
            probe.free_to(*v);
            left -= 1;
            if probe.count() != left {
                return Err(format!("op {} {:?}: free_to({}) on a copy left count {} (expected {}); model content {:?}", i, op, v, probe.count(), left, m.q));
            }
        }
        // a drained window has the reduced capacity in force
        if m.q.is_empty() && m.pending.is_none() {
            let mut probe = real.clone();
            let mut added = 0usize;
            while !probe.full() && added <= 16 {
                probe.add(next + 1 + added as u64);
                added += 1;
            }
            if added != m.cap {
                return Err(format!("op {} {:?}: an empty window accepted {} adds but its capacity is {}", i, op, added, m.cap));
            }
        }
    }
    Ok(())
}

// ============================================================================ C19

#[derive(Clone, Debug, Serialize, serde::Deserialize)]
pub enum MsOp {
    /// append `len` entries starting `back` positions before last+1 (overwrite), with term bump
    Append { back: u8, len: u8, term_bump: u8, size: u8 },
    /// compact to commit - back
    Compact { back: u8 },
    /// apply a snapshot at first_index-1 + delta (delta may make it out of date)
    ApplySnapshot { delta: i8, term_bump: u8 },
    SetCommit { back: u8 },
    SetConf { v: u8 },
    CommitTo { back: u8 },
    /// the storage's asynchronous-fetch toggle (Storage::entries may answer LogTemporarilyUnavailable)
    LogUnavailable { on: bool },
}

#[derive(Clone, Debug, Serialize, serde::Deserialize)]
pub struct MsCase {
    pub ops: Vec<MsOp>,
    pub queries: Vec<(u8, u8, u8)>,
}

pub fn ms_strategy(max_ops: usize) -> impl Strategy<Value = MsCase> {
    let op = prop_oneof![
        6 => (0u8..4, 1u8..5, 0u8..2, 0u8..40).prop_map(|(back, len, term_bump, size)| MsOp::Append { back, len, term_bump, size }),
        2 => (0u8..4).prop_map(|back| MsOp::Compact { back }),
        2 => (-2i8..6, 0u8..2).prop_map(|(delta, term_bump)| MsOp::ApplySnapshot { delta, term_bump }),
        2 => (0u8..4).prop_map(|back| MsOp::SetCommit { back }),
        1 => (0u8..8).prop_map(|v| MsOp::SetConf { v }),
        1 => (0u8..4).prop_map(|back| MsOp::CommitTo { back }),
        1 => any::<bool>().prop_map(|on| MsOp::LogUnavailable { on }),
    ];
    (vec(op, 0..max_ops), vec((any::<u8>(), any::<u8>(), any::<u8>()), 1..6)).prop_map(|(ops, queries)| MsCase { ops, queries })
}

#[derive(Default, Debug)]
pub struct MsStats {
    pub overwrites: u32,
    pub compactions: u32,
    pub snapshots_ok: u32,
    pub snapshots_out_of_date: u32,
    pub limited_reads: u32,
    pub error_reads: u32,
}

struct MsModel {
    snap_index: u64,
    snap_term: u64,
    ents: Vec<Entry>,
    hs: HardState,
    cs: ConfState,
    /// compaction may have removed entries without moving the snapshot point
    first: u64,
    log_unavailable: bool,
}

impl MsModel {
    fn last(&self) -> u64 {
        self.ents.last().map_or(self.snap_index, |e| e.index)
    }
    fn first_index(&self) -> u64 {
        self.ents.first().map_or(self.snap_index + 1, |e| e.index)
    }
    fn term(&self, i: u64) -> Option<u64> {
        self.ents.iter().find(|e| e.index == i).map(|e| e.term)
    }
}

fn mk_entry(index: u64, term: u64, size: u8, salt: u64) -> Entry {
    let mut e = Entry::default();
    e.index = index;
    e.term = term;
    let mut d = vec![(salt & 0xff) as u8; size as usize];
    if !d.is_empty() {
        d[0] = (index & 0xff) as u8;
    }
    e.data = d.into();
    e
}

fn limit(ents: &[Entry], max: Option<u64>) -> Vec<Entry> {
    use protobuf::Message;
    let max = match max {
        None => return ents.to_vec(),
        Some(m) => m,
    };
    let mut out = vec![];
    let mut size = 0u64;
    for e in ents {
        size += e.compute_size() as u64;
        if !out.is_empty() && size > max {
            break;
        }
        out.push(e.clone());
    }
    out
}

pub fn run_memstorage(case: &MsCase, stats: &mut MsStats) -> Result<(), String> {
    let store = MemStorage::new_with_conf_state((vec![1u64, 2, 3], vec![]));
    let mut cs0 = ConfState::default();
    cs0.voters = vec![1, 2, 3];
    let mut m = MsModel { snap_index: 0, snap_term: 0, ents: vec![], hs: HardState::default(), cs: cs0, first: 1, log_unavailable: false };
    let mut salt = 0u64;
    let mut cur_term = 1u64;
    for (i, op) in case.ops.iter().enumerate() {
        salt += 1;
        match op {
            MsOp::Append { back, len, term_bump, size } => {
                // never below the first index, never with a gap, never at or below commit
                let lo_allowed = m.first_index().max(m.hs.commit + 1);
                let mut start = (m.last() + 1).saturating_sub(*back as u64);
                if start < lo_allowed {
                    start = lo_allowed;
                }
                if start > m.last() + 1 {
                    start = m.last() + 1;
                }
                if start < m.first_index() {
                    continue;
                }
                cur_term += *term_bump as u64;
                let prev_term = if start == m.first_index() { m.snap_term.max(m.term(start.saturating_sub(1)).unwrap_or(0)) } else { m.term(start - 1).unwrap_or(0) };
                let t = cur_term.max(prev_term);
                cur_term = t;
                let ents: Vec<Entry> = (0..*len as u64).map(|k| mk_entry(start + k, t, *size, salt)).collect();
                if start <= m.last() {
                    stats.overwrites += 1;
                }
                store.wl().append(&ents).map_err(|e| format!("op {}: append failed: {:?}", i, e))?;
                m.ents.retain(|e| e.index < start);
                m.ents.extend(ents);
            }
            MsOp::Compact { back } => {
                let c = m.hs.commit.saturating_sub(*back as u64);
                if c > m.last() || c == 0 {
                    continue;
                }
                store.wl().compact(c).map_err(|e| format!("op {}: compact failed: {:?}", i, e))?;
                if c > m.first_index() {
                    m.ents.retain(|e| e.index >= c);
                    m.first = c;
                    stats.compactions += 1;
                }
            }
            MsOp::ApplySnapshot { delta, term_bump } => {
                let base = m.first_index() as i64 - 1 + *delta as i64;
                if base <= 0 {
                    continue;
                }
                let idx = base as u64;
                let term = m.term(idx).unwrap_or(cur_term) + *term_bump as u64;
                let mut s = Snapshot::default();
                s.mut_metadata().index = idx;
                s.mut_metadata().term = term;
                let mut cs = ConfState::default();
                cs.voters = vec![1, 2, (salt % 5) + 3];
                s.mut_metadata().set_conf_state(cs.clone());
                let r = store.wl().apply_snapshot(s);
                if m.first_index() > idx {
                    stats.snapshots_out_of_date += 1;
                    if r != Err(Error::Store(StorageError::SnapshotOutOfDate)) {
                        return Err(format!("op {}: apply_snapshot at {} below first index {} returned {:?}", i, idx, m.first_index(), r));
                    }
                } else {
                    if r.is_err() {
                        return Err(format!("op {}: apply_snapshot at {} (first index {}) failed: {:?}", i, idx, m.first_index(), r));
                    }
                    stats.snapshots_ok += 1;
                    m.snap_index = idx;
                    m.snap_term = term;
                    m.ents.clear();
                    m.first = idx + 1;
                    m.hs.term = m.hs.term.max(term);
                    m.hs.commit = idx;
                    m.cs = cs;
                    cur_term = cur_term.max(term);
                }
            }
            MsOp::SetCommit { back } => {
                let lo = m.snap_index.max(m.first_index().saturating_sub(1)).max(m.hs.commit.min(m.last()));
                let c = m.last().saturating_sub(*back as u64).max(lo);
                let mut hs = m.hs.clone();
                hs.commit = c;
                hs.term = hs.term.max(cur_term);
                store.wl().set_hardstate(hs.clone());
                m.hs = hs;
            }
            MsOp::SetConf { v } => {
                let mut cs = ConfState::default();
                cs.voters = vec![1, 2 + (*v as u64 % 3)];
                cs.learners = vec![9];
                store.wl().set_conf_state(cs.clone());
                m.cs = cs;
            }
            MsOp::LogUnavailable { on } => {
                store.wl().trigger_log_unavailable(*on);
                m.log_unavailable = *on;
            }
            MsOp::CommitTo { back } => {
                if m.ents.is_empty() {
                    continue;
                }
                let c = m.last().saturating_sub(*back as u64).max(m.first_index()).max(m.hs.commit);
                if m.term(c).is_none() {
                    continue;
                }
                store.wl().commit_to(c).map_err(|e| format!("op {}: commit_to failed: {:?}", i, e))?;
                m.hs.commit = c;
                m.hs.term = m.term(c).unwrap();
            }
        }
        check_ms(&store, &m, case, stats).map_err(|e| format!("after op {} {:?}: {}", i, op, e))?;
    }
    check_ms(&store, &m, case, stats).map_err(|e| format!("at end: {}", e))
}

fn check_ms(store: &MemStorage, m: &MsModel, case: &MsCase, stats: &mut MsStats) -> Result<(), String> {
    let first = store.first_index().map_err(|e| format!("first_index: {:?}", e))?;
    let last = store.last_index().map_err(|e| format!("last_index: {:?}", e))?;
    if first != m.first_index() {
        return Err(format!("first_index() = {} but the model says {}", first, m.first_index()));
    }
    if last != m.last() {
        return Err(format!("last_index() = {} but the model says {}", last, m.last()));
    }
    let st = store.initial_state().map_err(|e| format!("initial_state: {:?}", e))?;
    if st.hard_state != m.hs {
        return Err(format!("hard state {:?} but the model says {:?}", st.hard_state, m.hs));
    }
    if st.conf_state != m.cs {
        return Err(format!("conf state {:?} but the model says {:?}", st.conf_state, m.cs));
    }
    // term(i) over [first-2, last+2]
    for i in first.saturating_sub(2)..=last + 2 {
        let r = store.term(i);
        let want = m.term(i);
        match (r, want) {
            (Ok(t), Some(w)) => {
                if t != w {
                    return Err(format!("term({}) = {} but the model says {}", i, t, w));
                }
            }
            (Ok(t), None) => {
                // only the snapshot point (and index 0 of an empty store) may answer without an entry
                if !(i == m.snap_index && t == m.snap_term) {
                    return Err(format!("term({}) = {} but no such entry (snapshot point {}, {})", i, t, m.snap_index, m.snap_term));
                }
            }
            (Err(Error::Store(StorageError::Compacted)), None) if i < first => {
                stats.error_reads += 1;
            }
            (Err(Error::Store(StorageError::Unavailable)), None) if i > last => {
                stats.error_reads += 1;
            }
            (r, w) => return Err(format!("term({}) = {:?} but the model says {:?} (first {}, last {})", i, r, w, first, last)),
        }
    }
    // entries(lo, hi, max) within preconditions
    if !m.ents.is_empty() {
        let n = m.ents.len() as u64;
        for (a, b, c) in &case.queries {
            let lo = first + (*a as u64 % n);
            let hi = lo + 1 + (*b as u64 % (last + 1 - lo));
            let max = match *c % 4 {
                0 => None,
                1 => Some(0u64),
                2 => Some(*c as u64),
                _ => Some(u64::MAX),
            };
            let r = store.entries(lo, hi, max, GetEntriesContext::empty(false)).map_err(|e| format!("entries({},{},{:?}): {:?}", lo, hi, max, e))?;
            let all: Vec<Entry> = m.ents.iter().filter(|e| e.index >= lo && e.index < hi).cloned().collect();
            let want = limit(&all, max.filter(|x| *x != u64::MAX));
            if want.len() < all.len() {
                stats.limited_reads += 1;
            }
            if r != want {
                return Err(format!(
                    "entries({},{},{:?}) returned indexes {:?} but the model says {:?}",
                    lo, hi, max,
                    r.iter().map(|e| (e.index, e.term)).collect::<Vec<_>>(),
                    want.iter().map(|e| (e.index, e.term)).collect::<Vec<_>>()
                ));
            }
            if r.is_empty() {
                return Err(format!("entries({},{},{:?}) returned nothing", lo, hi, max));
            }
        }
        // asynchronous-fetch toggle: only async-capable contexts, and only for ranges that exist
        {
            let lo = first;
            let hi = last + 1;
            let r = store.entries(lo, hi, None, GetEntriesContext::empty(true));
            if m.log_unavailable {
                if r != Err(Error::Store(StorageError::LogTemporarilyUnavailable)) {
                    return Err(format!("entries({},{}) with async fetch enabled returned {:?} instead of LogTemporarilyUnavailable", lo, hi, r.map(|v| v.len())));
                }
                if store.wl().take_get_entries_context().is_none() {
                    return Err("LogTemporarilyUnavailable answered without remembering the fetch context".to_string());
                }
                stats.error_reads += 1;
            } else if r.is_err() {
                return Err(format!("entries({},{}) with an async-capable context failed: {:?}", lo, hi, r.err()));
            }
            if first > 1 {
                match store.entries(first - 1, first, None, GetEntriesContext::empty(true)) {
                    Err(Error::Store(StorageError::Compacted)) => {
                        if store.wl().take_get_entries_context().is_some() {
                            return Err("a read below the first index parked an asynchronous fetch context".to_string());
                        }
                    }
                    r => return Err(format!("async-capable entries({},{}) below the first index returned {:?} instead of Compacted", first - 1, first, r.map(|v| v.len()))),
                }
            }
        }
        // below first: Compacted
        if first > 1 {
            match store.entries(first - 1, first, None, GetEntriesContext::empty(false)) {
                Err(Error::Store(StorageError::Compacted)) => stats.error_reads += 1,
                r => return Err(format!("entries({},{}) below the first index returned {:?}", first - 1, first, r.map(|v| v.len()))),
            }
        }
    }
    // snapshot(request_index): only defined when the commit index is retained or is the snapshot point
    let c = m.hs.commit;
    if c == m.snap_index || m.term(c).is_some() {
        let mut reqs: Vec<u64> = vec![0, c + 2];
        reqs.extend(m.snap_index.saturating_sub(1)..=c + 1);
        for req in reqs {
            let s = store.snapshot(req, 1).map_err(|e| format!("snapshot({}): {:?}", req, e))?;
            let meta = s.get_metadata();
            if meta.index < req {
                return Err(format!("snapshot({}) has index {}", req, meta.index));
            }
            if req <= c {
                let want_term = if c == m.snap_index { m.snap_term } else { m.term(c).unwrap() };
                if meta.index != c || meta.term != want_term || *meta.get_conf_state() != m.cs {
                    return Err(format!(
                        "snapshot({}) = (index {}, term {}, {:?}) but commit is {} with term {} and conf {:?}",
                        req, meta.index, meta.term, meta.get_conf_state(), c, want_term, m.cs
                    ));
                }
            }
        }
    }
    Ok(())
}
