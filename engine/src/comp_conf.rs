//! C12: configuration-change algebra against a set model (re-implemented from
//! the etcd/raft specification of make-voter / make-learner / remove), plus
//! restore round-trips and brute-force quorum intersection.

use std::collections::BTreeSet;

use proptest::collection::vec;
use proptest::prelude::*;
use raft::eraftpb::{ConfChangeSingle, ConfChangeTransition, ConfChangeType, ConfChangeV2, ConfState};
use raft::storage::MemStorage;
use raft::verif_export::{restore, VoteResult};
use raft::{Changer, Config, ProgressTracker, Raft};
use serde::Serialize;

#[derive(Clone, Debug, Serialize, serde::Deserialize, PartialEq)]
pub enum Kind {
    Simple,
    EnterJoint(bool),
    LeaveJoint,
}

#[derive(Clone, Debug, Serialize, serde::Deserialize)]
pub struct Step {
    pub kind: Kind,
    /// (0 add voter, 1 remove, 2 add learner ; id)
    pub changes: Vec<(u8, u64)>,
}

#[derive(Clone, Debug, Serialize, serde::Deserialize)]
pub struct CCase {
    pub boot_voters: BTreeSet<u64>,
    pub boot_learners: BTreeSet<u64>,
    pub steps: Vec<Step>,
}

fn id_strategy() -> impl Strategy<Value = u64> {
    prop_oneof![12 => 1u64..=6, 1 => Just(0u64), 1 => Just(99u64)]
}

pub fn c_strategy(max_steps: usize) -> impl Strategy<Value = CCase> {
    let change = (0u8..3, id_strategy());
    let step = (
        prop_oneof![4 => Just(Kind::Simple), 2 => any::<bool>().prop_map(Kind::EnterJoint), 3 => Just(Kind::LeaveJoint)],
        vec(change, 0..=4),
    )
        .prop_map(|(kind, changes)| Step { kind, changes });
    (
        proptest::collection::btree_set(1u64..=6, 1..=4),
        proptest::collection::btree_set(1u64..=6, 0..=2),
        vec(step, 1..max_steps),
    )
        .prop_map(|(v, l, steps)| {
            let l: BTreeSet<u64> = l.difference(&v).cloned().collect();
            CCase { boot_voters: v, boot_learners: l, steps }
        })
}

#[derive(Clone, Debug, PartialEq, Default)]
pub struct Model {
    pub incoming: BTreeSet<u64>,
    pub outgoing: BTreeSet<u64>,
    pub learners: BTreeSet<u64>,
    pub learners_next: BTreeSet<u64>,
    pub auto_leave: bool,
    pub progress: BTreeSet<u64>,
}

impl Model {
    fn joint(&self) -> bool {
        !self.outgoing.is_empty()
    }
    fn make_voter(&mut self, id: u64) {
        if !self.progress.contains(&id) {
            self.incoming.insert(id);
            self.progress.insert(id);
            return;
        }
        self.incoming.insert(id);
        self.learners.remove(&id);
        self.learners_next.remove(&id);
    }
    fn make_learner(&mut self, id: u64) {
        if !self.progress.contains(&id) {
            self.learners.insert(id);
            self.progress.insert(id);
            return;
        }
        if self.learners.contains(&id) {
            return;
        }
        self.incoming.remove(&id);
        self.learners.remove(&id);
        self.learners_next.remove(&id);
        if self.outgoing.contains(&id) {
            self.learners_next.insert(id);
        } else {
            self.learners.insert(id);
        }
    }
    fn remove(&mut self, id: u64) {
        if !self.progress.contains(&id) {
            return;
        }
        self.incoming.remove(&id);
        self.learners.remove(&id);
        self.learners_next.remove(&id);
        if !self.outgoing.contains(&id) {
            self.progress.remove(&id);
        }
    }
    fn apply(&mut self, changes: &[(u8, u64)]) -> Result<(), String> {
        for (t, id) in changes {
            if *id == 0 {
                continue;
            }
            match t {
                0 => self.make_voter(*id),
                1 => self.remove(*id),
                _ => self.make_learner(*id),
            }
        }
        if self.incoming.is_empty() {
            return Err("removed all voters".into());
        }
        Ok(())
    }
    pub fn invariants(&self) -> Result<(), String> {
        let voters: BTreeSet<u64> = self.incoming.union(&self.outgoing).cloned().collect();
        if !voters.is_subset(&self.progress) {
            return Err("voter without progress".into());
        }
        if !self.learners.is_subset(&self.progress) || !self.learners_next.is_subset(&self.progress) {
            return Err("learner without progress".into());
        }
        if self.learners.intersection(&voters).next().is_some() {
            return Err("voters and learners intersect".into());
        }
        if !self.learners_next.is_subset(&self.outgoing) {
            return Err("staged learner outside the outgoing voters".into());
        }
        if !self.joint() && (!self.learners_next.is_empty() || self.auto_leave) {
            return Err("learners_next / auto_leave set while not joint".into());
        }
        let members: BTreeSet<u64> = voters.union(&self.learners).cloned().collect::<BTreeSet<_>>().union(&self.learners_next).cloned().collect();
        if members != self.progress {
            return Err(format!("progress {:?} != members {:?}", self.progress, members));
        }
        Ok(())
    }
    pub fn step(&self, s: &Step) -> Result<Model, String> {
        let mut m = self.clone();
        match s.kind {
            Kind::Simple => {
                if self.joint() {
                    return Err("simple change while joint".into());
                }
                m.apply(&s.changes)?;
                if m.incoming.symmetric_difference(&self.incoming).count() > 1 {
                    return Err("more than one voter changed".into());
                }
            }
            Kind::EnterJoint(al) => {
                if self.joint() {
                    return Err("already joint".into());
                }
                if self.incoming.is_empty() {
                    return Err("zero-voter config".into());
                }
                m.outgoing = m.incoming.clone();
                m.apply(&s.changes)?;
                m.auto_leave = al;
            }
            Kind::LeaveJoint => {
                if !self.joint() {
                    return Err("not joint".into());
                }
                let ln: Vec<u64> = m.learners_next.iter().cloned().collect();
                for id in ln {
                    m.learners.insert(id);
                }
                m.learners_next.clear();
                let out: Vec<u64> = m.outgoing.iter().cloned().collect();
                for id in out {
                    if !m.incoming.contains(&id) && !m.learners.contains(&id) {
                        m.progress.remove(&id);
                    }
                }
                m.outgoing.clear();
                m.auto_leave = false;
            }
        }
        m.invariants()?;
        Ok(m)
    }
    pub fn to_cs(&self) -> ConfState {
        let mut cs = ConfState::default();
        cs.voters = self.incoming.iter().cloned().collect();
        cs.voters_outgoing = self.outgoing.iter().cloned().collect();
        cs.learners = self.learners.iter().cloned().collect();
        cs.learners_next = self.learners_next.iter().cloned().collect();
        cs.auto_leave = self.auto_leave;
        cs
    }
    fn wins(&self, s: &BTreeSet<u64>) -> bool {
        for half in [&self.incoming, &self.outgoing] {
            if half.is_empty() {
                continue;
            }
            if half.iter().filter(|v| s.contains(v)).count() < half.len() / 2 + 1 {
                return false;
            }
        }
        true
    }
}

pub fn model_of_tracker(t: &ProgressTracker) -> Model {
    let cs = t.conf().to_conf_state();
    Model {
        incoming: cs.voters.iter().cloned().collect(),
        outgoing: cs.voters_outgoing.iter().cloned().collect(),
        learners: cs.learners.iter().cloned().collect(),
        learners_next: cs.learners_next.iter().cloned().collect(),
        auto_leave: cs.auto_leave,
        progress: t.iter().map(|(id, _)| *id).collect(),
    }
}

fn singles(ch: &[(u8, u64)]) -> Vec<ConfChangeSingle> {
    ch.iter()
        .map(|(t, id)| {
            let mut s = ConfChangeSingle::default();
            s.set_change_type(match t {
                0 => ConfChangeType::AddNode,
                1 => ConfChangeType::RemoveNode,
                _ => ConfChangeType::AddLearnerNode,
            });
            s.node_id = *id;
            s
        })
        .collect()
}

#[derive(Default, Debug)]
pub struct CStats {
    pub rejected: u32,
    pub joint_with_demotion_then_leave: bool,
    pub replaced: bool,
    pub steps_ok: u32,
}

pub fn run_conf(c: &CCase, stats: &mut CStats) -> Result<(), String> {
    // bootstrap through restore
    let mut boot = Model::default();
    boot.incoming = c.boot_voters.clone();
    boot.learners = c.boot_learners.clone();
    boot.progress = boot.incoming.union(&boot.learners).cloned().collect();
    let mut tr = ProgressTracker::new(4);
    restore(&mut tr, 5, &boot.to_cs()).map_err(|e| format!("restore of bootstrap {:?}: {:?}", boot, e))?;
    let mut m = boot;
    if model_of_tracker(&tr) != m {
        return Err(format!("bootstrap restore gives {:?}, expected {:?}", model_of_tracker(&tr), m));
    }
    let universe: Vec<u64> = vec![1, 2, 3, 4, 5, 6, 99];
    let mut had_demotion_joint = false;
    for (i, s) in c.steps.iter().enumerate() {
        let want = m.step(s);
        let ccs = singles(&s.changes);
        let before = model_of_tracker(&tr);
        let got = {
            let mut ch = Changer::new(&tr);
            match s.kind {
                Kind::Simple => ch.simple(&ccs),
                Kind::EnterJoint(al) => ch.enter_joint(al, &ccs),
                Kind::LeaveJoint => ch.leave_joint(),
            }
        };
        match (got, want) {
            (Err(_), Err(_)) => {
                stats.rejected += 1;
                if model_of_tracker(&tr) != before {
                    return Err(format!("step {} {:?}: a rejected change altered the tracker", i, s));
                }
            }
            (Ok(_), Err(e)) => return Err(format!("step {} {:?} on {:?}: accepted, but the specification rejects it ({})", i, s, m, e)),
            (Err(e), Ok(w)) => return Err(format!("step {} {:?} on {:?}: rejected ({:?}), but the specification gives {:?}", i, s, m, e, w)),
            (Ok((cfg, changes)), Ok(w)) => {
                tr.apply_conf(cfg, changes, 7);
                let now = model_of_tracker(&tr);
                if now != w {
                    return Err(format!("step {} {:?} on {:?}: result {:?}, specification {:?}", i, s, m, now, w));
                }
                now.invariants().map_err(|e| format!("step {} {:?}: invariant broken: {} in {:?}", i, s, e, now))?;
                if s.kind == Kind::Simple && now.incoming.symmetric_difference(&m.incoming).count() > 1 {
                    return Err(format!("step {}: simple change altered more than one voter", i));
                }
                // quorum intersection, brute force over all subsets of the universe
                for mask in 0u32..(1 << universe.len()) {
                    let set: BTreeSet<u64> = universe.iter().enumerate().filter(|(k, _)| mask >> k & 1 == 1).map(|(_, v)| *v).collect();
                    let comp: BTreeSet<u64> = universe.iter().filter(|v| !set.contains(v)).cloned().collect();
                    if m.wins(&set) && now.wins(&comp) {
                        return Err(format!(
                            "step {} {:?}: quorum {:?} of {:?} and quorum {:?} of {:?} do not intersect",
                            i, s, set, m, comp, now
                        ));
                    }
                }
                // the tracker's own vote arithmetic agrees with the model on a sample of sets
                for mask in [0u32, 0b0101010, 0b1010101, 0b0011100, 0b1111111, 0b0000111] {
                    let set: BTreeSet<u64> = universe.iter().enumerate().filter(|(k, _)| mask >> k & 1 == 1).map(|(_, v)| *v).collect();
                    let mut hs = raft::verif_export::HashSet::default();
                    for x in &set {
                        hs.insert(*x);
                    }
                    if tr.has_quorum(&hs) != now.wins(&set) {
                        return Err(format!("step {}: has_quorum({:?}) = {} on {:?}", i, set, tr.has_quorum(&hs), now));
                    }
                }
                let _ = VoteResult::Won;
                // restore(to_conf_state(c)) reproduces c
                let mut t2 = ProgressTracker::new(4);
                restore(&mut t2, 9, &tr.conf().to_conf_state()).map_err(|e| format!("step {}: restore of {:?} failed: {:?}", i, now, e))?;
                if model_of_tracker(&t2) != now {
                    return Err(format!("step {}: restore(to_conf_state) gives {:?}, expected {:?}", i, model_of_tracker(&t2), now));
                }
                if matches!(s.kind, Kind::EnterJoint(_)) && !now.learners_next.is_empty() {
                    had_demotion_joint = true;
                }
                if matches!(s.kind, Kind::EnterJoint(_)) && now.incoming.difference(&now.outgoing).next().is_some() && now.outgoing.difference(&now.incoming).next().is_some() {
                    stats.replaced = true;
                }
                if s.kind == Kind::LeaveJoint && had_demotion_joint {
                    stats.joint_with_demotion_then_leave = true;
                }
                stats.steps_ok += 1;
                m = w;
            }
        }
    }
    // the same chain through Raft::new (restore at start-up) and Raft::apply_conf_change
    raft_level(c)?;
    Ok(())
}

fn cc_of(s: &Step) -> ConfChangeV2 {
    let mut cc = ConfChangeV2::default();
    cc.set_changes(singles(&s.changes).into());
    match s.kind {
        Kind::Simple => cc.set_transition(ConfChangeTransition::Auto),
        Kind::EnterJoint(true) => cc.set_transition(ConfChangeTransition::Implicit),
        Kind::EnterJoint(false) => cc.set_transition(ConfChangeTransition::Explicit),
        Kind::LeaveJoint => {
            cc.set_changes(vec![].into());
            cc.set_transition(ConfChangeTransition::Auto);
        }
    }
    cc
}

fn raft_level(c: &CCase) -> Result<(), String> {
    let mut boot = Model::default();
    boot.incoming = c.boot_voters.clone();
    boot.learners = c.boot_learners.clone();
    boot.progress = boot.incoming.union(&boot.learners).cloned().collect();
    let id = *c.boot_voters.iter().next().unwrap();
    let store = MemStorage::new_with_conf_state(boot.to_cs());
    let logger = slog::Logger::root(slog::Discard, slog::o!());
    let cfg = Config { id, election_tick: 10, heartbeat_tick: 1, max_inflight_msgs: 4, ..Default::default() };
    let mut r = Raft::new(&cfg, store, &logger).map_err(|e| format!("Raft::new: {:?}", e))?;
    // a second node with the same start that only ever learns configurations from snapshots
    let mut r3 = Raft::new(&cfg, MemStorage::new_with_conf_state(boot.to_cs()), &logger).map_err(|e| format!("Raft::new: {:?}", e))?;
    let mut m = boot;
    for (i, s) in c.steps.iter().enumerate() {
        let cc = cc_of(s);
        // what kind of step the V2 message denotes (same rule as the crate's enter_joint/leave_joint helpers)
        let eff = if cc.leave_joint() {
            Step { kind: Kind::LeaveJoint, changes: vec![] }
        } else if let Some(al) = cc.enter_joint() {
            Step { kind: Kind::EnterJoint(al), changes: s.changes.clone() }
        } else {
            Step { kind: Kind::Simple, changes: s.changes.clone() }
        };
        let want = m.step(&eff);
        let before = model_of_tracker(r.prs());
        match (r.apply_conf_change(&cc), want) {
            (Ok(cs), Ok(w)) => {
                let now = model_of_tracker(r.prs());
                if now != w {
                    return Err(format!("Raft::apply_conf_change step {} {:?}: {:?}, specification {:?}", i, eff, now, w));
                }
                let mut back = Model::default();
                back.incoming = cs.voters.iter().cloned().collect();
                back.outgoing = cs.voters_outgoing.iter().cloned().collect();
                back.learners = cs.learners.iter().cloned().collect();
                back.learners_next = cs.learners_next.iter().cloned().collect();
                back.auto_leave = cs.auto_leave;
                back.progress = now.progress.clone();
                if back != now {
                    return Err(format!("Raft::apply_conf_change step {}: returned ConfState {:?} differs from the tracker {:?}", i, cs, now));
                }
                if r.promotable() != (now.incoming.contains(&id) || now.outgoing.contains(&id)) {
                    return Err(format!("step {}: promotable() = {} but voters are {:?} / {:?}", i, r.promotable(), now.incoming, now.outgoing));
                }
                // a node restarted from this ConfState has the same configuration
                let st2 = MemStorage::new_with_conf_state(cs.clone());
                let r2 = Raft::new(&cfg, st2, &logger).map_err(|e| format!("Raft::new from {:?}: {:?}", cs, e))?;
                if model_of_tracker(r2.prs()) != now {
                    return Err(format!("step {}: Raft::new from ConfState gives {:?}, expected {:?}", i, model_of_tracker(r2.prs()), now));
                }
                // a follower that receives this configuration in a snapshot (over whatever it tracked before)
                if now.progress.contains(&id) {
                    let mut snap = raft::eraftpb::Snapshot::default();
                    snap.mut_metadata().index = 100 + i as u64;
                    snap.mut_metadata().term = 1;
                    *snap.mut_metadata().mut_conf_state() = cs.clone();
                    if !r3.restore(snap) {
                        return Err(format!("step {}: Raft::restore refused a snapshot carrying {:?}", i, cs));
                    }
                    if model_of_tracker(r3.prs()) != now {
                        return Err(format!("step {}: Raft::restore of a snapshot carrying {:?} gives {:?}, expected {:?}", i, cs, model_of_tracker(r3.prs()), now));
                    }
                }
                m = w;
            }
            (Err(_), Err(_)) => {
                if model_of_tracker(r.prs()) != before {
                    return Err(format!("Raft::apply_conf_change step {}: a rejected change altered the node's configuration", i));
                }
            }
            (Ok(_), Err(e)) => return Err(format!("Raft::apply_conf_change step {} {:?} on {:?}: accepted, specification rejects ({})", i, eff, m, e)),
            (Err(e), Ok(w)) => return Err(format!("Raft::apply_conf_change step {} {:?} on {:?}: rejected ({:?}), specification gives {:?}", i, eff, m, e, w)),
        }
    }
    Ok(())
}
