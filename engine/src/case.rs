//! Generated cases: a scenario (cluster shape, knobs) plus an operation list.
//! Cases are decoded from raw bytes (`RawCase`) so that proptest and libFuzzer
//! drive the very same interpreter; the decoded form is what replay files hold.

use serde::{Deserialize, Serialize};

pub const NN: usize = 6; // universe of node ids 1..=NN
pub const RAW_SCEN: usize = 40;
pub const RAW_OP: usize = 6;

pub const NO_LIMIT: u64 = u64::MAX;

#[derive(Clone, Debug, Serialize, Deserialize, PartialEq)]
pub struct NodeCfg {
    pub async_io: bool,
    pub max_size_per_msg: u64,
    pub max_inflight: usize,
    pub max_uncommitted: u64,
    pub max_committed_per_ready: u64,
    pub priority: i64,
    pub batch_append: bool,
    pub skip_bcast_commit: bool,
    pub apply_unpersisted: u64,
    pub disable_fwd: bool,
}

#[derive(Clone, Debug, Serialize, Deserialize, PartialEq)]
pub struct Scenario {
    pub voters: Vec<u64>,
    pub learners: Vec<u64>,
    pub outgoing: Vec<u64>,
    pub learners_next: Vec<u64>,
    pub auto_leave: bool,
    pub s0: u64,
    pub election_tick: usize,
    pub heartbeat_tick: usize,
    pub pre_vote: bool,
    pub check_quorum: bool,
    pub lease_read: bool,
    pub nodes: Vec<NodeCfg>,
    pub warm: bool,
    pub timeouts: Vec<u8>,
    pub net_cap: usize,
    /// 0 = free-form run; 1 = the property's structured scenario (C16 lockstep, C17 handoff)
    #[serde(default)]
    pub mode: u8,
}

#[derive(Clone, Debug, Serialize, Deserialize, PartialEq)]
pub struct CcSpec {
    pub v2: bool,
    /// 0 Auto, 1 Implicit, 2 Explicit
    pub transition: u8,
    /// (type: 0 AddNode, 1 RemoveNode, 2 AddLearnerNode ; node id)
    pub changes: Vec<(u8, u64)>,
}

#[derive(Clone, Debug, Serialize, Deserialize, PartialEq)]
pub enum Op {
    Tick { n: u8, k: u8 },
    TickUntilTimeout { n: u8 },
    Deliver { k: u16 },
    Drop { k: u16 },
    Dup { k: u16 },
    /// macro: run ready/persist/apply on every node and deliver everything FIFO, `rounds` times
    Settle { rounds: u8 },
    Partition { mask: u8 },
    Heal,
    Propose { n: u8, len: u8, ctx: bool },
    ProposeConf { n: u8, cc: CcSpec },
    ReadIndex { n: u8 },
    Transfer { n: u8, target: u8 },
    Campaign { n: u8 },
    ReportSnapshot { k: u8, ok: bool },
    ReportUnreachable { n: u8, peer: u8 },
    RequestSnapshot { n: u8 },
    /// one ready round on node n (sync or async according to the node's mode / `force_sync`)
    ReadyStep { n: u8, crash_at: u8, lazy_hs: bool, apply_inline: bool, force_sync: bool },
    Fsync { n: u8, upto: u8 },
    Apply { n: u8, count: u8 },
    Crash { n: u8 },
    Restart { n: u8 },
    Compact { n: u8, back: u8 },
    Knob { n: u8, k: u8, v: u8 },
    SnapUnavailable { n: u8 },
    /// deliver every in-flight message addressed to node n (FIFO)
    DeliverTo { n: u8 },
    Ping { n: u8 },
    /// every running node ticks once
    TickAll { k: u8 },
    /// a local-only message type offered to RawNode::step (must be rejected)
    StepLocal { n: u8, t: u8, from: u8 },
    /// one MsgPropose carrying several entries (normal and conf-change) stepped at node n
    ProposeBatch { n: u8, items: Vec<Option<CcSpec>> },
    /// asynchronous log fetch: `refuse` > 0 makes the node's storage answer that many async-capable
    /// reads with LogTemporarilyUnavailable; `refuse` == 0 completes the outstanding fetches
    /// (`on_entries_fetched` for every recorded context)
    LogFetch { n: u8, refuse: u8 },
}

pub const NKINDS: usize = 30;
pub const KIND_NAMES: [&str; NKINDS] = [
    "Tick", "TickUntilTimeout", "Deliver", "Drop", "Dup", "Settle", "Partition", "Heal",
    "Propose", "ProposeConf", "ReadIndex", "Transfer", "Campaign", "ReportSnapshot",
    "ReportUnreachable", "RequestSnapshot", "ReadyStep", "Fsync", "Apply", "Crash", "Restart",
    "Compact", "Knob", "SnapUnavailable", "DeliverTo", "Ping", "TickAll", "StepLocal", "ProposeBatch",
    "LogFetch",
];

impl Op {
    pub fn kind(&self) -> usize {
        match self {
            Op::Tick { .. } => 0,
            Op::TickUntilTimeout { .. } => 1,
            Op::Deliver { .. } => 2,
            Op::Drop { .. } => 3,
            Op::Dup { .. } => 4,
            Op::Settle { .. } => 5,
            Op::Partition { .. } => 6,
            Op::Heal => 7,
            Op::Propose { .. } => 8,
            Op::ProposeConf { .. } => 9,
            Op::ReadIndex { .. } => 10,
            Op::Transfer { .. } => 11,
            Op::Campaign { .. } => 12,
            Op::ReportSnapshot { .. } => 13,
            Op::ReportUnreachable { .. } => 14,
            Op::RequestSnapshot { .. } => 15,
            Op::ReadyStep { .. } => 16,
            Op::Fsync { .. } => 17,
            Op::Apply { .. } => 18,
            Op::Crash { .. } => 19,
            Op::Restart { .. } => 20,
            Op::Compact { .. } => 21,
            Op::Knob { .. } => 22,
            Op::SnapUnavailable { .. } => 23,
            Op::DeliverTo { .. } => 24,
            Op::Ping { .. } => 25,
            Op::TickAll { .. } => 26,
            Op::StepLocal { .. } => 27,
            Op::ProposeBatch { .. } => 28,
            Op::LogFetch { .. } => 29,
        }
    }
}

#[derive(Clone, Debug, Serialize, Deserialize, PartialEq)]
pub struct Case {
    pub scenario: Scenario,
    pub ops: Vec<Op>,
}

/// Raw, byte-level form of a case (what generators produce and shrink).
#[derive(Clone, Debug, PartialEq)]
pub struct RawCase {
    pub scen: [u8; RAW_SCEN],
    pub ops: Vec<[u8; RAW_OP]>,
}

impl RawCase {
    pub fn from_bytes(data: &[u8]) -> RawCase {
        let mut scen = [0u8; RAW_SCEN];
        let n = data.len().min(RAW_SCEN);
        scen[..n].copy_from_slice(&data[..n]);
        let mut ops = vec![];
        if data.len() > RAW_SCEN {
            for ch in data[RAW_SCEN..].chunks(RAW_OP) {
                if ch.len() < RAW_OP {
                    break;
                }
                let mut o = [0u8; RAW_OP];
                o.copy_from_slice(ch);
                ops.push(o);
            }
        }
        RawCase { scen, ops }
    }

    pub fn to_bytes(&self) -> Vec<u8> {
        let mut v = self.scen.to_vec();
        for o in &self.ops {
            v.extend_from_slice(o);
        }
        v
    }
}

/// A generation profile: op weights and scenario constraints.
#[derive(Clone, Debug)]
pub struct Profile {
    pub name: &'static str,
    pub weights: [u16; NKINDS],
    pub force_pre_vote: Option<bool>,
    pub force_check_quorum: Option<bool>,
    pub force_lease_read: Option<bool>,
    /// probability (x/256) that a node is async
    pub async_p: u8,
    /// probability (x/256) of warm start
    pub warm_p: u8,
    /// allow swarm disabling of op kinds
    pub swarm: bool,
    /// allow weird ids (0, unknown) in conf changes
    pub weird_ids: bool,
    /// small knob values preferred (flow control profile)
    pub tight_flow: bool,
    /// equal priorities only
    pub no_priority: bool,
    /// forbid apply_unpersisted > 0
    pub no_apply_unpersisted: bool,
    /// minimum number of voters
    pub min_voters: usize,
    /// allow initial joint config
    pub allow_initial_joint: bool,
    /// probability (x/256) that a case uses the structured scenario (mode 1)
    pub mode1_p: u8,
    /// extra probability (x/256) of a single-voter group
    pub sole_p: u8,
}

fn pick<T: Copy>(table: &[T], b: u8) -> T {
    table[(b as usize * table.len()) >> 8]
}

pub fn node_of(b: u8) -> u8 {
    (((b as usize) * NN) >> 8) as u8 + 1
}

impl Profile {
    pub fn decode_scenario(&self, r: &[u8; RAW_SCEN]) -> Scenario {
        let mut nv = pick(&[3usize, 3, 1, 2, 3, 5, 4, 3, 2, 5, 4, 3], r[0]);
        if r[33] < self.sole_p {
            nv = 1;
        }
        if nv < self.min_voters {
            nv = self.min_voters;
        }
        let nl = pick(&[0usize, 0, 0, 1, 0, 2, 1, 0], r[1]).min(NN - nv);
        let mut voters: Vec<u64> = (1..=nv as u64).collect();
        let learners: Vec<u64> = (nv as u64 + 1..=(nv + nl) as u64).collect();
        let mut outgoing = vec![];
        let mut learners_next = vec![];
        let mut auto_leave = false;
        if self.allow_initial_joint && r[2] >= 224 && nv >= 2 {
            // joint: outgoing = 1..=nv ; incoming = outgoing - {1} (+ maybe a fresh id)
            outgoing = voters.clone();
            voters.retain(|x| *x != 1);
            let fresh = (nv + nl + 1) as u64;
            if r[2] & 1 == 1 && fresh <= NN as u64 {
                voters.push(fresh);
            }
            if r[2] & 2 == 2 {
                learners_next.push(1);
            }
            auto_leave = r[2] & 4 == 4;
        }
        let election_tick = pick(&[5usize, 3, 4, 6, 8, 10, 5, 7], r[3]);
        let heartbeat_tick = pick(&[1usize, 1, 2, 1], r[4]).min(election_tick - 1);
        let pre_vote = self.force_pre_vote.unwrap_or(r[5] & 1 == 1);
        let mut check_quorum = self.force_check_quorum.unwrap_or(r[5] & 2 == 2);
        let lease_read = self.force_lease_read.unwrap_or(r[5] & 12 == 12);
        if lease_read {
            check_quorum = true;
        }
        let s0 = pick(&[1u64, 5, 1, 3], r[6]);
        let warm = r[7] < self.warm_p;
        let mut nodes = vec![];
        for i in 0..NN {
            let b = &r[8 + i * 4..8 + i * 4 + 4];
            let async_io = b[0] < self.async_p;
            let mut max_size_per_msg = if self.tight_flow {
                pick(&[NO_LIMIT, 40, 200, 0, 60, 120], b[1])
            } else {
                pick(&[NO_LIMIT, NO_LIMIT, 200, 40, 0, NO_LIMIT], b[1])
            };
            let max_inflight = if self.tight_flow {
                pick(&[2usize, 1, 4, 3, 256], b[2])
            } else {
                pick(&[256usize, 256, 4, 2, 1, 256], b[2])
            };
            let mut max_uncommitted = if self.tight_flow {
                pick(&[NO_LIMIT, 64, 300, 120], b[3])
            } else {
                pick(&[NO_LIMIT, NO_LIMIT, NO_LIMIT, 300, 64], b[3])
            };
            if max_uncommitted < max_size_per_msg {
                if b[3] & 1 == 0 {
                    max_uncommitted = NO_LIMIT;
                } else {
                    max_size_per_msg = max_uncommitted.min(40);
                }
            }
            let kb = r[32 + (i % 8)];
            let max_committed_per_ready = pick(&[NO_LIMIT, NO_LIMIT, 100, 30, 0, NO_LIMIT], kb);
            let priority = if self.no_priority {
                0
            } else {
                pick(&[0i64, 0, 0, 0, 1, 2, -1, 0], kb.rotate_left(3))
            };
            let apply_unpersisted = if self.no_apply_unpersisted {
                0
            } else {
                pick(&[0u64, 0, 0, 0, 1, 3, 0, 0], kb.rotate_left(5))
            };
            nodes.push(NodeCfg {
                async_io,
                max_size_per_msg,
                max_inflight,
                max_uncommitted,
                max_committed_per_ready,
                priority,
                batch_append: kb & 0x10 != 0,
                skip_bcast_commit: kb & 0x20 != 0 && kb & 0x02 != 0,
                apply_unpersisted,
                disable_fwd: kb & 0xc1 == 0xc1,
            });
        }
        let timeouts = r[32..40].to_vec();
        Scenario {
            voters,
            learners,
            outgoing,
            learners_next,
            auto_leave,
            s0,
            election_tick,
            heartbeat_tick,
            pre_vote,
            check_quorum,
            lease_read,
            nodes,
            warm,
            timeouts,
            net_cap: 96,
            mode: if r[31] < self.mode1_p { 1 } else { 0 },
        }
    }

    fn swarm_weights(&self, r: &[u8; RAW_SCEN]) -> [u16; NKINDS] {
        let mut w = self.weights;
        if !self.swarm {
            return w;
        }
        // r[38], r[39] : each optional kind is dropped with probability 1/4 when swarm byte < 128
        if r[39] >= 128 {
            return w;
        }
        let mut x = (r[38] as u32) << 8 | r[37] as u32 | (r[36] as u32) << 16;
        // kinds that are never disabled: Deliver, Settle, ReadyStep, Tick
        for (k, wk) in w.iter_mut().enumerate() {
            let keep = matches!(k, 0 | 2 | 5 | 16 | 26);
            x = x.wrapping_mul(1103515245).wrapping_add(12345);
            if !keep && (x >> 16) & 3 == 0 {
                *wk = 0;
            }
        }
        w
    }

    pub fn decode(&self, raw: &RawCase) -> Case {
        let scenario = self.decode_scenario(&raw.scen);
        let w = self.swarm_weights(&raw.scen);
        let total: u32 = w.iter().map(|x| *x as u32).sum();
        let mut ops = Vec::with_capacity(raw.ops.len());
        for o in &raw.ops {
            // two bytes of kind entropy (o[0] major, o[5] minor) for fine weights
            let t = ((o[0] as u32) << 8 | o[5] as u32) as u64 * total as u64 >> 16;
            let mut acc = 0u32;
            let mut kind = 0usize;
            for (k, wk) in w.iter().enumerate() {
                acc += *wk as u32;
                if (t as u32) < acc {
                    kind = k;
                    break;
                }
            }
            ops.push(self.decode_op(kind, o));
        }
        Case { scenario, ops }
    }

    fn decode_cc(&self, a: u8, b: u8, c: u8, d: u8) -> CcSpec {
        let nchanges = pick(&[1usize, 1, 1, 2, 1, 3, 0, 2], a);
        let v2 = a & 1 == 1 || nchanges != 1;
        let transition = pick(&[0u8, 0, 1, 2, 0], b);
        let mut changes = vec![];
        let bytes = [b, c, d];
        for i in 0..nchanges {
            let x = bytes[i].rotate_left(2 * i as u32 + 1);
            let ty = pick(&[0u8, 1, 2, 0, 1, 2, 0, 1], x);
            let idb = bytes[(i + 1) % 3].wrapping_add(a.wrapping_mul(31 + i as u8));
            let mut id = node_of(idb) as u64;
            if self.weird_ids && idb > 250 {
                id = if idb & 1 == 0 { 0 } else { 99 };
            }
            changes.push((ty, id));
        }
        CcSpec { v2, transition, changes }
    }

    fn decode_op(&self, kind: usize, o: &[u8; RAW_OP]) -> Op {
        let n = node_of(o[1]);
        let (a, b, c, d) = (o[2], o[3], o[4], o[5]);
        match kind {
            0 => Op::Tick { n, k: 1 + (a >> 6) },
            1 => Op::TickUntilTimeout { n },
            2 => Op::Deliver { k: (o[1] as u16) << 8 | a as u16 },
            3 => Op::Drop { k: (o[1] as u16) << 8 | a as u16 },
            4 => Op::Dup { k: (o[1] as u16) << 8 | a as u16 },
            5 => Op::Settle { rounds: 1 + (a >> 6) * 2 },
            6 => Op::Partition { mask: a & 0x3f },
            7 => Op::Heal,
            8 => Op::Propose { n, len: pick(&[8u8, 8, 0, 16, 40, 64, 8, 24], a), ctx: b & 7 == 7 },
            9 => Op::ProposeConf { n, cc: self.decode_cc(a, b, c, d) },
            10 => Op::ReadIndex { n },
            11 => Op::Transfer { n, target: node_of(a) },
            12 => Op::Campaign { n },
            13 => Op::ReportSnapshot { k: a, ok: b & 3 != 0 },
            14 => Op::ReportUnreachable { n, peer: node_of(a) },
            15 => Op::RequestSnapshot { n },
            16 => Op::ReadyStep {
                n,
                crash_at: if a < 10 { 1 + (b % 12) } else { 0 },
                lazy_hs: c & 1 == 1,
                apply_inline: c & 6 != 0,
                force_sync: c & 0x18 == 0x18,
            },
            17 => Op::Fsync { n, upto: a },
            18 => Op::Apply { n, count: 1 + (a >> 5) },
            19 => Op::Crash { n },
            20 => Op::Restart { n },
            21 => Op::Compact { n, back: a >> 5 },
            22 => Op::Knob { n, k: a % 10, v: b },
            23 => Op::SnapUnavailable { n },
            24 => Op::DeliverTo { n },
            25 => Op::Ping { n },
            26 => Op::TickAll { k: 1 + (a >> 7) },
            27 => Op::StepLocal { n, t: a % 5, from: node_of(b) },
            29 => Op::LogFetch { n, refuse: if a < 150 { 1 + (a & 3) } else { 0 } },
            _ => {
                let cnt = 2 + (a & 1) as usize;
                let mut items = vec![];
                for i in 0..cnt {
                    if (a >> (1 + i)) & 1 == 1 {
                        items.push(Some(self.decode_cc(b.rotate_left(i as u32 * 3), c, d, a)));
                    } else {
                        items.push(None);
                    }
                }
                Op::ProposeBatch { n, items }
            }
        }
    }
}
