//! Read-only observations of a node, taken before and after every library call.

use raft::eraftpb::{ConfState, Entry, Message};
use raft::{ProgressState, RawNode, StateRole};

use crate::store::{entry_hash, SimStore, StoreCore};

#[derive(Clone, Copy, Debug, PartialEq, Eq)]
pub struct EV {
    pub term: u64,
    pub h: u64,
    pub ty: u8,
}

pub fn ev_of(e: &Entry) -> EV {
    EV {
        term: e.term,
        h: entry_hash(e),
        ty: e.get_entry_type() as u8,
    }
}

/// A node's logical log: boundary (snapshot / compaction point) + retained entries.
#[derive(Clone, Debug, PartialEq, Eq, Default)]
pub struct LogView {
    pub base: u64,
    pub base_term: u64,
    pub ents: Vec<EV>,
}

impl LogView {
    pub fn last(&self) -> u64 {
        self.base + self.ents.len() as u64
    }
    pub fn get(&self, idx: u64) -> Option<EV> {
        if idx <= self.base || idx > self.last() {
            None
        } else {
            Some(self.ents[(idx - self.base - 1) as usize])
        }
    }
    pub fn term(&self, idx: u64) -> Option<u64> {
        if idx == self.base {
            Some(self.base_term)
        } else {
            self.get(idx).map(|e| e.term)
        }
    }
    pub fn from_core(c: &StoreCore) -> LogView {
        LogView {
            base: c.snap_index,
            base_term: c.snap_term,
            ents: c.entries.iter().map(ev_of).collect(),
        }
    }
}

#[derive(Clone, Debug, PartialEq, Eq, Default)]
pub struct ConfView {
    pub voters: Vec<u64>,
    pub outgoing: Vec<u64>,
    pub learners: Vec<u64>,
    pub learners_next: Vec<u64>,
    pub auto_leave: bool,
}

impl ConfView {
    pub fn from_cs(cs: &ConfState) -> ConfView {
        let mut v = ConfView {
            voters: cs.voters.clone(),
            outgoing: cs.voters_outgoing.clone(),
            learners: cs.learners.clone(),
            learners_next: cs.learners_next.clone(),
            auto_leave: cs.auto_leave,
        };
        v.voters.sort_unstable();
        v.outgoing.sort_unstable();
        v.learners.sort_unstable();
        v.learners_next.sort_unstable();
        v
    }
    pub fn is_voter(&self, id: u64) -> bool {
        self.voters.contains(&id) || self.outgoing.contains(&id)
    }
    pub fn is_member(&self, id: u64) -> bool {
        self.is_voter(id) || self.learners.contains(&id) || self.learners_next.contains(&id)
    }
    pub fn is_joint(&self) -> bool {
        !self.outgoing.is_empty()
    }
    pub fn is_empty(&self) -> bool {
        self.voters.is_empty() && self.outgoing.is_empty() && self.learners.is_empty()
    }
}

#[derive(Clone, Debug, PartialEq, Eq)]
pub struct PrView {
    pub id: u64,
    pub matched: u64,
    pub next_idx: u64,
    pub state: ProgressState,
    pub paused: bool,
    pub is_paused: bool,
    pub ins_count: usize,
    pub ins_full: bool,
    pub pending_snapshot: u64,
    pub pending_request_snapshot: u64,
    pub recent_active: bool,
}

#[derive(Clone, Debug, PartialEq)]
pub struct NodeObs {
    pub term: u64,
    pub vote: u64,
    pub role: StateRole,
    pub leader_id: u64,
    pub committed: u64,
    pub applied: u64,
    pub persisted: u64,
    pub last_index: u64,
    pub last_term: u64,
    pub log: LogView,
    pub conf: ConfView,
    pub transferee: Option<u64>,
    pub pending_conf_index: u64,
    pub election_elapsed: usize,
    pub pending_snapshot: Option<(u64, u64)>,
    pub pending_request_snapshot: u64,
    pub msgs_len: usize,
    pub prs: Vec<PrView>,
    pub has_self_progress: bool,
    pub read_states_len: usize,
    pub pending_reads: usize,
    pub promotable: bool,
    pub uncommitted_size: usize,
    pub max_inflight: usize,
    pub batch_append: bool,
    pub max_msg_size: u64,
    pub apply_unpersisted_limit: u64,
    pub max_committed_size_per_ready: u64,
    pub randomized_election_timeout: usize,
    pub heartbeat_elapsed: usize,
    pub records: usize,
    pub commit_since_index: u64,
}

pub fn log_view(rn: &RawNode<SimStore>) -> LogView {
    let rl = &rn.raft.raft_log;
    let un = &rl.unstable;
    if let Some(s) = &un.snapshot {
        let m = s.get_metadata();
        return LogView {
            base: m.index,
            base_term: m.term,
            ents: un.entries.iter().map(ev_of).collect(),
        };
    }
    let c = rl.store.0.borrow();
    let mut ents: Vec<EV> = Vec::with_capacity(c.entries.len() + un.entries.len());
    let stable_hi = un.offset; // exclusive
    for e in &c.entries {
        if e.index >= stable_hi {
            break;
        }
        ents.push(ev_of(e));
    }
    let base = c.snap_index;
    let base_term = c.snap_term;
    // unstable entries continue at un.offset (may be > store last + 1 only by a defect)
    let expect = base + ents.len() as u64 + 1;
    if !un.entries.is_empty() && un.offset == expect {
        ents.extend(un.entries.iter().map(ev_of));
    } else if !un.entries.is_empty() {
        // gap: represent what is contiguous only; monitors flag via last_index mismatch
        if un.offset < expect {
            ents.truncate((un.offset - base - 1) as usize);
            ents.extend(un.entries.iter().map(ev_of));
        }
    }
    LogView { base, base_term, ents }
}

pub fn observe(rn: &RawNode<SimStore>, want_prs: bool) -> NodeObs {
    let r = &rn.raft;
    let rl = &r.raft_log;
    let log = log_view(rn);
    let cs = r.prs().conf().to_conf_state();
    let mut prs = vec![];
    if want_prs {
        for (id, p) in r.prs().iter() {
            prs.push(PrView {
                id: *id,
                matched: p.matched,
                next_idx: p.next_idx,
                state: p.state,
                paused: p.paused,
                is_paused: p.is_paused(),
                ins_count: p.ins.count(),
                ins_full: p.ins.full(),
                pending_snapshot: p.pending_snapshot,
                pending_request_snapshot: p.pending_request_snapshot,
                recent_active: p.recent_active,
            });
        }
        prs.sort_by_key(|p| p.id);
    }
    let vv = rn.verif_view();
    let last_index = rl.last_index();
    let last_term = log.term(last_index).unwrap_or(0);
    NodeObs {
        term: r.term,
        vote: r.vote,
        role: r.state,
        leader_id: r.leader_id,
        committed: rl.committed,
        applied: rl.applied,
        persisted: rl.persisted,
        last_index,
        last_term,
        conf: ConfView::from_cs(&cs),
        transferee: r.lead_transferee,
        pending_conf_index: r.pending_conf_index,
        election_elapsed: r.election_elapsed,
        pending_snapshot: rl
            .unstable
            .snapshot
            .as_ref()
            .map(|s| (s.get_metadata().index, s.get_metadata().term)),
        pending_request_snapshot: r.pending_request_snapshot,
        msgs_len: r.msgs.len(),
        has_self_progress: r.prs().get(r.id).is_some(),
        prs,
        read_states_len: r.read_states.len(),
        pending_reads: r.read_only.read_index_queue.len(),
        promotable: r.promotable(),
        uncommitted_size: r.uncommitted_size(),
        max_inflight: r.max_inflight,
        batch_append: vv.batch_append,
        max_msg_size: r.max_msg_size,
        apply_unpersisted_limit: rl.max_apply_unpersisted_log_limit,
        max_committed_size_per_ready: vv.max_committed_size_per_ready,
        randomized_election_timeout: vv.randomized_election_timeout,
        heartbeat_elapsed: vv.heartbeat_elapsed,
        records: vv.records.len(),
        commit_since_index: vv.commit_since_index,
        log,
    }
}

/// Metadata recorded for a message when it is first seen in `raft.msgs`.
#[derive(Clone, Debug, Default)]
pub struct MsgMeta {
    /// sender's log term at m.index when the message was generated (append responses)
    pub gen_term_at_index: Option<u64>,
    /// sender's (last_term, last_index) before the step that generated it (vote responses)
    pub voter_last: Option<(u64, u64)>,
    /// the request this is a response to (vote responses): (log_term, index) of the candidate
    pub cand_last: Option<(u64, u64)>,
    pub incarnation: u32,
    pub serial: u64,
}

pub fn msg_brief(m: &Message) -> String {
    format!(
        "{:?} {}->{} term={} idx={} logterm={} commit={} ents={} rej={} hint={} snap={}",
        m.get_msg_type(),
        m.from,
        m.to,
        m.term,
        m.index,
        m.log_term,
        m.commit,
        m.entries.len(),
        m.reject,
        m.reject_hint,
        m.get_snapshot().get_metadata().index
    )
}

/// True when the union of both voter sets of the node's own configuration is exactly {self}:
/// such a node wins an election inside campaign() without any vote response.
pub fn sole_voter(rn: &RawNode<SimStore>) -> bool {
    let v = rn.raft.prs().conf().voters().ids();
    v.len() == 1 && v.contains(rn.raft.id)
}
