//! Known findings file (/verif/known_findings.json): read-only at run time.

#[derive(Clone, Debug, serde::Deserialize, serde::Serialize)]
pub struct Known {
    pub id: String,
    pub property: String,
    pub signature: String,
    pub what: String,
    /// how the check reproduces it when the trigger is excluded by construction
    #[serde(default)]
    pub repro_option: Option<String>,
    /// saved case that reproduces it (run with the exclusion off)
    #[serde(default)]
    pub replay: Option<String>,
}

#[derive(Clone, Debug, serde::Deserialize, serde::Serialize, Default)]
pub struct KnownFile {
    #[serde(default)]
    pub findings: Vec<Known>,
    #[serde(default)]
    pub fixed: Vec<String>,
}

pub fn path() -> String {
    std::env::var("VERIF_KNOWN_FINDINGS").unwrap_or_else(|_| "/verif/known_findings.json".to_string())
}

pub fn load() -> Vec<Known> {
    match std::fs::read_to_string(path()) {
        Ok(t) => serde_json::from_str::<KnownFile>(&t).map(|f| f.findings).unwrap_or_default(),
        Err(_) => vec![],
    }
}
