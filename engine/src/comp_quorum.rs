//! C11: quorum arithmetic - commit index and vote tallies against brute-force models.

use std::collections::{BTreeMap, BTreeSet};

use proptest::collection::{btree_map, btree_set};
use proptest::prelude::*;
use raft::verif_export::{joint_config, AckIndexer, HashMap as RHashMap, HashSet as RHashSet, Index, VoteResult};
use raft::{MajorityConfig, ProgressTracker};
use serde::Serialize;

#[derive(Clone, Debug, Serialize, serde::Deserialize)]
pub struct QCase {
    pub incoming: BTreeSet<u64>,
    pub outgoing: BTreeSet<u64>,
    /// id -> (acked index, group id); ids missing here are "no progress known"
    pub acked: BTreeMap<u64, (u64, u64)>,
    /// id -> vote; missing = not yet voted
    pub votes: BTreeMap<u64, bool>,
    pub group_commit: bool,
}

fn idx_strategy() -> impl Strategy<Value = u64> {
    prop_oneof![
        6 => 0u64..12,
        1 => Just(0u64),
        1 => Just(u64::MAX - 1),
        1 => 1000u64..1003,
    ]
}

pub fn q_strategy() -> impl Strategy<Value = QCase> {
    (
        btree_set(1u64..=12, 0..=9),
        prop_oneof![3 => Just(BTreeSet::new()), 2 => btree_set(1u64..=12, 0..=9)],
        btree_map(1u64..=12, (idx_strategy(), prop_oneof![2 => Just(0u64), 3 => 1u64..=3]), 0..=12),
        btree_map(1u64..=12, any::<bool>(), 0..=12),
        any::<bool>(),
        any::<bool>(),
    )
        .prop_map(|(incoming, outgoing, mut acked, votes, group_commit, all_grouped)| {
            if all_grouped {
                for (_, v) in acked.iter_mut() {
                    if v.1 == 0 {
                        v.1 = 1 + (v.0 % 3);
                    }
                }
            }
            QCase { incoming, outgoing, acked, votes, group_commit }
        })
}

#[derive(Default, Debug)]
pub struct QStats {
    pub joint_disagree: bool,
    pub heap_path: bool,
    pub tie_at_quorum: bool,
    pub missing_at_quorum: bool,
    pub group_path: bool,
}

fn to_rset(s: &BTreeSet<u64>) -> RHashSet<u64> {
    let mut h = RHashSet::default();
    for x in s {
        h.insert(*x);
    }
    h
}

/// Plain quorum index of one half: the majority-th largest acked index (missing = 0).
fn plain_half(half: &BTreeSet<u64>, acked: &BTreeMap<u64, (u64, u64)>, stats: &mut QStats) -> Option<u64> {
    if half.is_empty() {
        return None;
    }
    let mut v: Vec<u64> = half.iter().map(|id| acked.get(id).map_or(0, |a| a.0)).collect();
    v.sort_unstable_by(|a, b| b.cmp(a));
    let q = half.len() / 2 + 1;
    let r = v[q - 1];
    if q < v.len() && v[q] == r {
        stats.tie_at_quorum = true;
    }
    if half.iter().filter(|id| !acked.contains_key(id)).count() >= half.len() - q + 1 && r == 0 {
        stats.missing_at_quorum = true;
    }
    if half.len() > 7 {
        stats.heap_path = true;
    }
    Some(r)
}

/// Group-commit model for a half in which every voter has a non-zero group:
/// the largest index that is acked by a majority and by voters of >= 2 groups.
fn grouped_half(half: &BTreeSet<u64>, acked: &BTreeMap<u64, (u64, u64)>) -> Option<(u64, bool)> {
    let members: Vec<(u64, u64)> = half.iter().map(|id| acked.get(id).cloned().unwrap_or((0, 0))).collect();
    if members.iter().any(|m| m.1 == 0) {
        return None;
    }
    let groups: BTreeSet<u64> = members.iter().map(|m| m.1).collect();
    let q = half.len() / 2 + 1;
    let mut sorted: Vec<u64> = members.iter().map(|m| m.0).collect();
    sorted.sort_unstable_by(|a, b| b.cmp(a));
    let plain = sorted[q - 1];
    if groups.len() < 2 {
        return Some((plain, false));
    }
    // candidates: every acked value (and 0)
    let mut cands: Vec<u64> = members.iter().map(|m| m.0).collect();
    cands.push(0);
    cands.sort_unstable_by(|a, b| b.cmp(a));
    for c in cands {
        let holders: Vec<&(u64, u64)> = members.iter().filter(|m| m.0 >= c).collect();
        let gs: BTreeSet<u64> = holders.iter().map(|m| m.1).collect();
        if holders.len() >= q && gs.len() >= 2 {
            return Some((c, true));
        }
    }
    Some((0, true))
}

fn vote_half(half: &BTreeSet<u64>, votes: &BTreeMap<u64, bool>) -> Option<VoteResult> {
    if half.is_empty() {
        return None;
    }
    let q = half.len() / 2 + 1;
    let yes = half.iter().filter(|id| votes.get(id) == Some(&true)).count();
    let missing = half.iter().filter(|id| !votes.contains_key(id)).count();
    Some(if yes >= q {
        VoteResult::Won
    } else if yes + missing < q {
        VoteResult::Lost
    } else {
        VoteResult::Pending
    })
}

pub fn run_quorum(c: &QCase, stats: &mut QStats) -> Result<(), String> {
    let jc = joint_config(to_rset(&c.incoming), to_rset(&c.outgoing));
    let mut ack = AckIndexer::default();
    for (id, (i, g)) in &c.acked {
        ack.insert(*id, Index { index: *i, group_id: *g });
    }
    // ---------------- plain commit index
    let pi = plain_half(&c.incoming, &c.acked, stats);
    let po = plain_half(&c.outgoing, &c.acked, stats);
    let want_plain = match (pi, po) {
        (None, None) => u64::MAX,
        (Some(a), None) | (None, Some(a)) => a,
        (Some(a), Some(b)) => {
            if a != b {
                stats.joint_disagree = true;
            }
            a.min(b)
        }
    };
    let (got, flag) = jc.committed_index(false, &ack);
    if got != want_plain {
        return Err(format!("committed_index(false) = {} but the largest index acked by a majority of each non-empty half is {}", got, want_plain));
    }
    if flag && !(c.incoming.is_empty() && c.outgoing.is_empty()) && !(c.incoming.is_empty() || c.outgoing.is_empty()) {
        return Err("committed_index(false) reports group commit in use".to_string());
    }
    // majority level too
    for half in [&c.incoming, &c.outgoing] {
        let mc = MajorityConfig::new(to_rset(half));
        let want = plain_half(half, &c.acked, stats).unwrap_or(u64::MAX);
        let (g, _) = mc.committed_index(false, &ack);
        if g != want {
            return Err(format!("MajorityConfig{:?}.committed_index(false) = {} but expected {}", half, g, want));
        }
    }
    // ---------------- group commit
    let (gg, gflag) = jc.committed_index(true, &ack);
    if gg > want_plain {
        return Err(format!("group commit result {} exceeds the plain quorum index {}", gg, want_plain));
    }
    let gi = if c.incoming.is_empty() { None } else { grouped_half(&c.incoming, &c.acked) };
    let go = if c.outgoing.is_empty() { None } else { grouped_half(&c.outgoing, &c.acked) };
    let all_grouped = (c.incoming.is_empty() || gi.is_some()) && (c.outgoing.is_empty() || go.is_some()) && !(c.incoming.is_empty() && c.outgoing.is_empty());
    if all_grouped {
        stats.group_path = true;
        let vals: Vec<(u64, bool)> = [gi, go].iter().flatten().cloned().collect();
        let want = vals.iter().map(|v| v.0).min().unwrap();
        if gg != want {
            return Err(format!(
                "group commit: committed_index(true) = {} but the largest quorum index replicated into two groups is {} (per half {:?})",
                gg, want, vals
            ));
        }
        // flag: true only when every non-empty half used the group algorithm (an empty half counts as true)
        let want_flag = vals.iter().all(|v| v.1);
        if gflag != want_flag {
            return Err(format!("group commit flag = {} but expected {} (per half {:?})", gflag, want_flag, vals));
        }
    }
    // ---------------- votes
    let vi = vote_half(&c.incoming, &c.votes);
    let vo = vote_half(&c.outgoing, &c.votes);
    let want_vote = match (vi.unwrap_or(VoteResult::Won), vo.unwrap_or(VoteResult::Won)) {
        (VoteResult::Won, VoteResult::Won) => VoteResult::Won,
        (VoteResult::Lost, _) | (_, VoteResult::Lost) => VoteResult::Lost,
        _ => VoteResult::Pending,
    };
    let got_vote = jc.vote_result(|id| c.votes.get(&id).cloned());
    if got_vote != want_vote {
        return Err(format!("vote_result = {:?} but counting gives {:?} (incoming {:?}, outgoing {:?})", got_vote, want_vote, vi, vo));
    }
    // ---------------- the tracker agrees (reachable shape only: both halves through the Changer is C12's job;
    // here the tracker is loaded through restore when the shape is a legal ConfState)
    if !c.incoming.is_empty() {
        let mut cs = raft::eraftpb::ConfState::default();
        cs.voters = c.incoming.iter().cloned().collect();
        cs.voters_outgoing = c.outgoing.iter().cloned().collect();
        let mut tr = ProgressTracker::new(8);
        if raft::verif_export::restore(&mut tr, 10, &cs).is_ok() {
            let mut votes: RHashMap<u64, bool> = RHashMap::default();
            for (k, v) in &c.votes {
                votes.insert(*k, *v);
                tr.record_vote(*k, *v);
            }
            if tr.vote_result(&votes) != want_vote {
                return Err(format!("ProgressTracker::vote_result = {:?}, expected {:?}", tr.vote_result(&votes), want_vote));
            }
            let (gr, rj, res) = tr.tally_votes();
            let members: BTreeSet<u64> = c.incoming.union(&c.outgoing).cloned().collect();
            let wg = c.votes.iter().filter(|(k, v)| members.contains(k) && **v).count();
            let wr = c.votes.iter().filter(|(k, v)| members.contains(k) && !**v).count();
            if res != want_vote || gr != wg || rj != wr {
                return Err(format!("tally_votes = ({}, {}, {:?}) but expected ({}, {}, {:?})", gr, rj, res, wg, wr, want_vote));
            }
            let yes: BTreeSet<u64> = c.votes.iter().filter(|(_, v)| **v).map(|(k, _)| *k).collect();
            let hq = tr.has_quorum(&to_rset(&yes));
            let mut all_no: BTreeMap<u64, bool> = BTreeMap::new();
            for id in &members {
                all_no.insert(*id, yes.contains(id));
            }
            let wq = {
                let a = vote_half(&c.incoming, &all_no).unwrap_or(VoteResult::Won);
                let b = vote_half(&c.outgoing, &all_no).unwrap_or(VoteResult::Won);
                a == VoteResult::Won && b == VoteResult::Won
            };
            if hq != wq {
                return Err(format!("has_quorum({:?}) = {} but expected {}", yes, hq, wq));
            }
            // commit index through the tracker's progress map
            for (id, (i, g)) in &c.acked {
                if let Some(pr) = tr.get_mut(*id) {
                    pr.matched = *i;
                    pr.commit_group_id = *g;
                }
            }
            tr.enable_group_commit(false);
            let (ti, _) = tr.maximal_committed_index();
            let mut acked2 = c.acked.clone();
            acked2.retain(|k, _| members.contains(k));
            let mut st2 = QStats::default();
            let a = plain_half(&c.incoming, &acked2, &mut st2);
            let b = plain_half(&c.outgoing, &acked2, &mut st2);
            let wt = match (a, b) {
                (Some(a), Some(b)) => a.min(b),
                (Some(a), None) | (None, Some(a)) => a,
                _ => u64::MAX,
            };
            if ti != wt {
                return Err(format!("ProgressTracker::maximal_committed_index = {} but expected {}", ti, wt));
            }
        }
    }
    Ok(())
}
