//! Invariant monitors and ghost state. Each property check enables its own
//! monitor set (bit mask); a violation names the property it belongs to.

use std::collections::{HashMap, HashSet};

use raft::eraftpb::{ConfState, Entry, EntryType, Message, MessageType, Snapshot};
use raft::{LightReady, Ready, StateRole};

use crate::case::{Scenario, NN};
use crate::obs::*;
use crate::store::*;
use crate::world::{CallKind, CaseStats, Node};

#[derive(Clone, Debug, serde::Serialize, serde::Deserialize)]
pub struct Violation {
    pub property: String,
    pub monitor: String,
    pub detail: String,
    pub op_index: usize,
}

pub const P01: u32 = 1 << 1;
pub const P02: u32 = 1 << 2;
pub const P03: u32 = 1 << 3;
pub const P04: u32 = 1 << 4;
pub const P05: u32 = 1 << 5;
pub const P06: u32 = 1 << 6;
pub const P07: u32 = 1 << 7;
pub const P08: u32 = 1 << 8;
pub const P09: u32 = 1 << 9;
pub const P10: u32 = 1 << 10;
pub const P13: u32 = 1 << 13;
pub const P15: u32 = 1 << 15;
pub const P16: u32 = 1 << 16;
pub const P17: u32 = 1 << 17;
pub const P20: u32 = 1 << 20;

pub fn prop_bit(id: &str) -> u32 {
    let n: u32 = id[1..].parse().unwrap_or(0);
    1 << n
}

// non-triviality flags (per case), combined per property by the runner
pub const F_LEADER_CHANGE_AFTER_COMMIT: u64 = 1 << 0;
pub const F_TRUNCATION: u64 = 1 << 1;
pub const F_CRASH_LOST: u64 = 1 << 2;
pub const F_SNAP_INSTALLED: u64 = 1 << 3;
pub const F_CONF_APPLIED: u64 = 1 << 4;
pub const F_TWO_NODES_3_COMMITS: u64 = 1 << 5;
pub const F_TWO_LEADERS: u64 = 1 << 6;
pub const F_VOTE_UNSYNCED_CRASH: u64 = 1 << 7;
pub const F_VOTE_DUP_OR_LATE: u64 = 1 << 8;
pub const F_LEADER_WITH_DIVERGENT_PEER: u64 = 1 << 9;
pub const F_VOTE_DECIDED_VS_BETTER_LOG: u64 = 1 << 10;
pub const F_COMMIT_LEADER_DISK_BEHIND: u64 = 1 << 11;
pub const F_COMMIT_VOTER_VOLATILE_ONLY: u64 = 1 << 12;
pub const F_COMMIT_JOINT: u64 = 1 << 13;
pub const F_LEADER_CRASH_UNPERSISTED_SENT: u64 = 1 << 14;
pub const F_SPLIT_APPEND: u64 = 1 << 15;
pub const F_PROMISE_PENDING_LOST: u64 = 1 << 16;
pub const F_RELEASE_WHILE_DISK_LAGS: u64 = 1 << 17;
pub const F_MULTI_OUTSTANDING_READY: u64 = 1 << 18;
pub const F_SNAPSHOT_READY: u64 = 1 << 19;
pub const F_PAGINATION: u64 = 1 << 20;
pub const F_RESTART_MID_BATCH: u64 = 1 << 21;
pub const F_THREE_READIES: u64 = 1 << 22;
pub const F_READ_ANSWERED_NONTRIVIAL: u64 = 1 << 23;
pub const F_CONF_WHILE_PENDING: u64 = 1 << 24;
pub const F_CONF_APPLIED_TWO_NODES: u64 = 1 << 25;
pub const F_JOINT_RESTORED: u64 = 1 << 26;
pub const F_WINDOW_FULL: u64 = 1 << 27;
pub const F_CAP_CHANGE_NONEMPTY: u64 = 1 << 28;
pub const F_REJECT_MOVED_NEXT: u64 = 1 << 29;
pub const F_REFUSED_FOR_SIZE: u64 = 1 << 30;
pub const F_SNAP_THEN_APPEND: u64 = 1 << 31;
pub const F_SNAP_IGNORED_OR_FF: u64 = 1 << 32;
pub const F_PREVOTE_NONTRIVIAL: u64 = 1 << 33;
pub const F_TRANSFER_NONTRIVIAL: u64 = 1 << 34;
pub const F_CRASH_OR_CONF_AND_30: u64 = 1 << 35;
pub const F_LIVENESS_NONTRIVIAL: u64 = 1 << 36;
pub const F_TRUNC_BETWEEN_READIES: u64 = 1 << 37;
pub const F_READ_ANSWERED: u64 = 1 << 38;
pub const F_STEP_REJECTED: u64 = 1 << 39;

#[derive(Default)]
pub struct Ghost {
    pub s0: u64,
    /// first entry any node reported committed at index i
    pub cl: Vec<Option<EV>>,
    /// digest after applying cl[..=i]; d[s0] = GENESIS
    pub d: Vec<Option<u64>>,
    pub d_upto: u64,
    pub conf_at: HashMap<u64, ConfView>,
    pub leader_of: HashMap<u64, u64>,
    /// term of the leader whose own commit advance first covered i (0 = unset)
    pub commit_term: Vec<u64>,
    pub maxcommit: u64,
    pub commits_by_node: Vec<u32>,
    pub last_leader_commit_by: u64,
}

impl Ghost {
    fn ensure(&mut self, i: u64) {
        let n = i as usize + 1;
        if self.cl.len() < n {
            self.cl.resize(n, None);
            self.d.resize(n, None);
            self.commit_term.resize(n, 0);
        }
    }
    fn extend_d(&mut self) {
        loop {
            let next = self.d_upto + 1;
            if (next as usize) >= self.cl.len() {
                break;
            }
            match (self.d[self.d_upto as usize], self.cl[next as usize]) {
                (Some(prev), Some(ev)) => {
                    self.d[next as usize] = Some(digest_step(prev, next, ev.term, ev.h));
                    self.d_upto = next;
                }
                _ => break,
            }
        }
    }
}

#[derive(Default, Clone)]
pub struct Dur {
    pub term: u64,
    pub votes: HashMap<u64, u64>,
    pub ents: HashSet<(u64, u64)>,
    pub snap: u64,
}

#[derive(Default, Clone)]
pub struct Promises {
    pub max_term_released: u64,
    pub granted: HashMap<u64, u64>,
    /// terms in which this node released leader traffic as a self-elected sole voter before persisting (finding F1)
    pub f1_terms: HashSet<u64>,
    /// latest released acknowledgement (index, sender's log term there)
    pub acked: Option<(u64, u64)>,
}

pub struct Mon {
    pub enabled: u32,
    pub violations: Vec<Violation>,
    pub g: Ghost,
    pub flags: u64,
    /// latest logical log per node (running: volatile view; crashed: disk)
    pub logs: Vec<LogView>,
    pub up: Vec<bool>,
    pub dur: Vec<Dur>,
    pub prom: Vec<Promises>,
    pub expect_reject: Option<bool>,
    /// per leader: highest index each peer acknowledged to it in its current leadership
    pub acked_by: Vec<HashMap<u64, u64>>,
    pub sc_check_quorum: bool,
    pub sc_pre_vote: bool,
    pub election_tick: usize,
    pub b: crate::mon_b::MonB,
}

impl Mon {
    pub fn new(enabled: u32) -> Mon {
        Mon {
            enabled,
            violations: vec![],
            g: Ghost::default(),
            flags: 0,
            logs: vec![LogView::default(); NN],
            up: vec![false; NN],
            dur: vec![Dur::default(); NN],
            prom: vec![Promises::default(); NN],
            expect_reject: None,
            acked_by: vec![HashMap::new(); NN],
            sc_check_quorum: false,
            sc_pre_vote: false,
            election_tick: 0,
            b: crate::mon_b::MonB::default(),
        }
    }

    #[inline]
    pub fn on(&self, p: u32) -> bool {
        self.enabled & p != 0
    }

    pub fn violation(&mut self, prop: &str, monitor: &str, detail: String, op: usize) {
        if self.violations.len() < 8 && !self.violations.iter().any(|v| v.property == prop && v.monitor == monitor) {
            self.violations.push(Violation {
                property: prop.to_string(),
                monitor: monitor.to_string(),
                detail,
                op_index: op,
            });
        }
    }

    pub fn flags(&self) -> u64 {
        self.flags
    }

    pub fn wants_prs(&self) -> bool {
        self.on(P13 | P17 | P20 | P15 | P10 | P04)
    }

    pub fn wants_has_ready_check(&self) -> bool {
        self.on(P07)
    }

    pub fn allow_apply_unpersisted(&self) -> bool {
        self.on(P07 | P20)
    }

    pub fn init(&mut self, sc: &Scenario) {
        self.g.s0 = sc.s0;
        self.g.ensure(sc.s0 + 1);
        self.g.d[sc.s0 as usize] = Some(GENESIS_DIGEST);
        self.g.d_upto = sc.s0;
        self.g.maxcommit = sc.s0;
        self.g.commits_by_node = vec![0; NN];
        self.sc_check_quorum = sc.check_quorum;
        self.sc_pre_vote = sc.pre_vote;
        self.election_tick = sc.election_tick;
        let mut cs = ConfState::default();
        cs.voters = sc.voters.clone();
        cs.learners = sc.learners.clone();
        cs.voters_outgoing = sc.outgoing.clone();
        cs.learners_next = sc.learners_next.clone();
        cs.auto_leave = sc.auto_leave;
        self.g.conf_at.insert(sc.s0, ConfView::from_cs(&cs));
        self.b.init(sc);
    }

    // ------------------------------------------------------------- CL / C01

    fn cl_report(&mut self, ni: usize, idx: u64, ev: EV, how: &str, op: usize) {
        self.g.ensure(idx);
        match self.g.cl[idx as usize] {
            None => {
                self.g.cl[idx as usize] = Some(ev);
                self.g.extend_d();
            }
            Some(prev) => {
                if prev != ev && self.on(P01) {
                    self.violation(
                        "C01",
                        "committed-entry-differs",
                        format!(
                            "node {} reports index {} committed ({}) as term {} type {} hash {:x}, but it was first reported committed as term {} type {} hash {:x}",
                            ni + 1, idx, how, ev.term, ev.ty, ev.h, prev.term, prev.ty, prev.h
                        ),
                        op,
                    );
                }
            }
        }
        if idx > self.g.maxcommit {
            self.g.maxcommit = idx;
        }
    }

    fn check_commit_range(&mut self, ni: usize, from_excl: u64, to_incl: u64, log: &LogView, how: &str, op: usize) {
        let lo = from_excl.max(log.base) + 1;
        for i in lo..=to_incl {
            if let Some(ev) = log.get(i) {
                self.cl_report(ni, i, ev, how, op);
            }
        }
        if to_incl > self.g.maxcommit {
            self.g.maxcommit = to_incl;
        }
    }

    // ------------------------------------------------------------- hooks

    pub fn on_start(&mut self, ni: usize, post: &NodeObs, nodes: &[Node], first: bool, op: usize) {
        self.up[ni] = true;
        self.logs[ni] = post.log.clone();
        self.refresh_dur(ni, nodes);
        // restored commit index: everything at or below it is (again) reported committed
        self.check_commit_range(ni, 0, post.committed, &post.log, "restart", op);
        if self.on(P04) && !first {
            for i in (post.log.base.max(self.g.s0) + 1)..=post.committed {
                self.g.ensure(i);
                if self.g.commit_term[i as usize] == 0 {
                    self.violation(
                        "C04",
                        "restart-commit-beyond-any-leader",
                        format!("node {} restarts with commit index {} but no leader ever committed index {}", ni + 1, post.committed, i),
                        op,
                    );
                    break;
                }
            }
        }
        if self.on(P06) && !first {
            let p = &self.prom[ni];
            if post.term < p.max_term_released {
                let d = format!(
                    "node {} restarted at term {} but it had released a message of term {}",
                    ni + 1, post.term, p.max_term_released
                );
                let mon = if p.f1_terms.contains(&p.max_term_released) { "restart-term-behind-promise:sole-voter-leader" } else { "restart-term-behind-promise" };
                self.violation("C06", mon, d, op);
            } else if let Some(c) = p.granted.get(&post.term) {
                if post.vote != *c {
                    let d = format!(
                        "node {} restarted at term {} with vote {} but it had released a vote for {} in that term",
                        ni + 1, post.term, post.vote, c
                    );
                    self.violation("C06", "restart-vote-lost", d, op);
                }
            }
        }
        if self.on(P05) {
            self.cross_check_logs(ni, op);
        }
        if self.on(P06) && !first {
            let lg = post.log.clone();
            self.check_acked_kept(ni, &lg, post.term, "restart", op);
        }
        self.acked_by[ni].clear();
        self.b_on_start(ni, post, nodes, first, op);
    }

    pub fn on_crash(&mut self, ni: usize, lost: bool, nodes: &[Node], op: usize) {
        self.up[ni] = false;
        if lost {
            self.flags |= F_CRASH_LOST;
        }
        // promise pending and lost?
        let n = &nodes[ni];
        let mut pending_promise = false;
        for b in &n.batches {
            if b.msgs.iter().any(|(m, _)| is_promise(m)) {
                pending_promise = true;
            }
        }
        if let Some(rn) = n.rn.as_ref() {
            if rn.raft.msgs.iter().any(is_promise) {
                pending_promise = true;
            }
            if rn.raft.state == StateRole::Leader && !rn.raft.raft_log.unstable.entries.is_empty() {
                self.flags |= F_LEADER_CRASH_UNPERSISTED_SENT;
            }
            let hs = rn.raft.hard_state();
            if hs.vote != n.disk.hs.vote || hs.term != n.disk.hs.term {
                self.flags |= F_VOTE_UNSYNCED_CRASH;
            }
        }
        if pending_promise && lost {
            self.flags |= F_PROMISE_PENDING_LOST;
        }
        self.logs[ni] = LogView::from_core(&n.disk);
        self.b_on_crash(ni, nodes, op);
    }

    pub fn on_dup(&mut self, m: &Message) {
        if matches!(
            m.get_msg_type(),
            MessageType::MsgRequestVote
                | MessageType::MsgRequestVoteResponse
                | MessageType::MsgRequestPreVote
                | MessageType::MsgRequestPreVoteResponse
        ) {
            self.flags |= F_VOTE_DUP_OR_LATE;
        }
        self.b.on_dup(m);
    }

    fn refresh_dur(&mut self, ni: usize, nodes: &[Node]) {
        let d = &nodes[ni].disk;
        let dur = &mut self.dur[ni];
        if d.hs.term > dur.term {
            dur.term = d.hs.term;
        }
        if d.hs.vote != 0 {
            dur.votes.insert(d.hs.term, d.hs.vote);
        }
        for e in &d.entries {
            dur.ents.insert((e.index, e.term));
        }
        dur.ents.insert((d.snap_index, d.snap_term));
        if d.snap_index > dur.snap {
            dur.snap = d.snap_index;
        }
    }

    pub fn on_durable(&mut self, ni: usize, nodes: &[Node], op: usize) {
        if self.on(P06) {
            let d = &nodes[ni].disk;
            if d.hs.term < self.dur[ni].term {
                let det = format!("node {} wrote hard state term {} over durable term {}", ni + 1, d.hs.term, self.dur[ni].term);
                self.violation("C06", "durable-term-decreased", det, op);
            }
            if d.hs.vote != 0 {
                if let Some(prev) = self.dur[ni].votes.get(&d.hs.term) {
                    if *prev != d.hs.vote {
                        let det = format!(
                            "node {} persisted vote {} in term {} after having persisted vote {} in the same term",
                            ni + 1, d.hs.vote, d.hs.term, prev
                        );
                        self.violation("C06", "two-durable-votes-in-term", det, op);
                    }
                }
            }
        }
        self.refresh_dur(ni, nodes);
        if !self.up[ni] {
            self.logs[ni] = LogView::from_core(&nodes[ni].disk);
        }
    }

    pub fn on_new_msg(&mut self, ni: usize, m: &Message, meta: &MsgMeta, pre: &NodeObs, op: usize) {
        // C03 B: election restriction at generation time
        if self.on(P03)
            && matches!(
                m.get_msg_type(),
                MessageType::MsgRequestVoteResponse | MessageType::MsgRequestPreVoteResponse
            )
        {
            if let (Some((vt, vi)), Some((ct, ci))) = (meta.voter_last, meta.cand_last) {
                if (ct, ci) != (vt, vi) {
                    self.flags |= F_VOTE_DECIDED_VS_BETTER_LOG;
                }
                if !m.reject && (ct, ci) < (vt, vi) {
                    self.violation(
                        "C03",
                        "grant-to-stale-candidate",
                        format!(
                            "node {} granted {:?} to {} whose last (term,index)=({},{}) is behind its own ({},{})",
                            ni + 1, m.get_msg_type(), m.to, ct, ci, vt, vi
                        ),
                        op,
                    );
                }
            }
        }
        self.b_on_new_msg(ni, m, meta, pre, op);
    }

    pub fn before_deliver(&mut self, ni: usize, m: &Message, meta: &MsgMeta, nodes: &[Node], op: usize) {
        let rn = nodes[ni].rn.as_ref().unwrap();
        let t = m.get_msg_type();
        let is_resp = matches!(
            t,
            MessageType::MsgAppendResponse
                | MessageType::MsgRequestVoteResponse
                | MessageType::MsgHeartbeatResponse
                | MessageType::MsgRequestPreVoteResponse
        );
        self.expect_reject = Some(is_resp && rn.raft.prs().get(m.from).is_none());
        if meta.incarnation != nodes[((m.from.max(1) - 1) as usize).min(NN - 1)].incarnation
            && matches!(
                t,
                MessageType::MsgRequestVote
                    | MessageType::MsgRequestVoteResponse
                    | MessageType::MsgRequestPreVote
                    | MessageType::MsgRequestPreVoteResponse
            )
        {
            self.flags |= F_VOTE_DUP_OR_LATE;
        }
        self.b_before_deliver(ni, m, meta, nodes, op);
    }

    pub fn on_step_result(&mut self, ni: usize, ok: bool, op: usize) {
        if let Some(exp) = self.expect_reject.take() {
            if exp {
                self.flags |= F_STEP_REJECTED;
            }
            if self.on(P20) && exp && ok {
                self.violation(
                    "C20",
                    "response-from-non-member-accepted",
                    format!("node {}: step() accepted a response-type message from an id without progress", ni + 1),
                    op,
                );
            }
        }
    }

    pub fn on_step_local_result(&mut self, ni: usize, is_err: bool, op: usize) {
        self.flags |= F_STEP_REJECTED;
        if self.on(P20) && !is_err {
            self.violation(
                "C20",
                "local-message-accepted",
                format!("node {}: RawNode::step() accepted a local-only message type", ni + 1),
                op,
            );
        }
    }

    pub fn after_call(&mut self, ni: usize, kind: &CallKind, pre: &NodeObs, post: &NodeObs, nodes: &[Node], op: usize) {
        let log_changed = pre.log != post.log;
        if log_changed {
            self.logs[ni] = post.log.clone();
        }
        // ---------------- C20: rejected steps change nothing
        if self.on(P20) {
            let must_be_unchanged = match kind {
                CallKind::StepLocal(_) => true,
                CallKind::Step(_) => self.expect_reject == Some(true),
                _ => false,
            };
            if must_be_unchanged && pre != post {
                self.violation(
                    "C20",
                    "rejected-step-changed-state",
                    format!("node {}: a message that step() must reject changed the node's state ({})", ni + 1, kind.name()),
                    op,
                );
            }
        }
        // ---------------- C06: term monotone within an incarnation
        if self.on(P06) && post.term < pre.term {
            self.violation(
                "C06",
                "term-decreased",
                format!("node {} term went from {} to {} in {}", ni + 1, pre.term, post.term, kind.name()),
                op,
            );
        }
        // ---------------- C06: what the node acknowledged stays in its log
        if self.on(P06) && log_changed {
            self.check_acked_kept(ni, &post.log, post.term, kind.name(), op);
        }
        // ---------------- C04/C13: a leader's matched index needs an acknowledgement received in this leadership
        if self.on(P04) || self.on(P13) {
            self.track_acks(ni, kind, pre, post, op);
        }
        // ---------------- C02 election safety
        if post.role == StateRole::Leader {
            let id = (ni + 1) as u64;
            match self.g.leader_of.get(&post.term) {
                None => {
                    if !self.g.leader_of.is_empty() {
                        self.flags |= F_TWO_LEADERS;
                        if self.g.maxcommit > self.g.s0 {
                            self.flags |= F_LEADER_CHANGE_AFTER_COMMIT;
                        }
                    }
                    self.g.leader_of.insert(post.term, id);
                }
                Some(l) => {
                    if *l != id && self.on(P02) {
                        let l = *l;
                        // listed finding F11: one of the two never had its own vote of that term on disk - a sole
                        // voter that elected itself inside campaign() and crashed before its hard state was written
                        let durable = |n: u64| self.dur[(n - 1) as usize].votes.get(&post.term) == Some(&n);
                        let tag = if !durable(l) || !durable(id) { ":self-elected-leader-never-persisted-its-vote" } else { "" };
                        let mon = format!("two-leaders-in-term{}", tag);
                        self.violation(
                            "C02",
                            &mon,
                            format!("nodes {} and {} are both leader of term {}", l, id, post.term),
                            op,
                        );
                    }
                }
            }
        }
        // ---------------- commit advance: C01 / C03 / C04
        if post.committed > pre.committed {
            let c1 = post.committed;
            self.g.ensure(c1);
            self.g.commits_by_node[ni] += (c1 - pre.committed) as u32;
            if self.g.commits_by_node.iter().filter(|c| **c >= 3).count() >= 2 {
                self.flags |= F_TWO_NODES_3_COMMITS;
            }
            let leader_commit = post.role == StateRole::Leader && pre.role == StateRole::Leader;
            if leader_commit {
                for i in pre.committed + 1..=c1 {
                    if self.g.commit_term[i as usize] == 0 {
                        self.g.commit_term[i as usize] = post.term;
                    }
                }
                if self.on(P04) {
                    self.check_leader_commit(ni, c1, post, nodes, op);
                }
            } else if self.on(P04) {
                for i in (pre.committed.max(self.g.s0) + 1)..=c1 {
                    if self.g.commit_term[i as usize] == 0 {
                        self.violation(
                            "C04",
                            "non-leader-commit-beyond-any-leader",
                            format!(
                                "node {} ({:?}) moved its commit index to {} in {} but no leader has committed index {}",
                                ni + 1, post.role, c1, kind.name(), i
                            ),
                            op,
                        );
                        break;
                    }
                }
            }
            self.check_commit_range(ni, pre.committed, c1, &post.log, "commit index", op);
        }
        if log_changed {
            // committed prefix must still match CL
            if self.on(P01) {
                let lo = post.log.base + 1;
                for i in lo..=post.committed.min(post.log.last()) {
                    if let (Some(ev), Some(Some(c))) = (post.log.get(i), self.g.cl.get(i as usize)) {
                        if ev != *c {
                            self.violation(
                                "C01",
                                "committed-prefix-changed",
                                format!("node {}: entry at committed index {} now differs from the entry first reported committed there", ni + 1, i),
                                op,
                            );
                            break;
                        }
                    }
                }
            }
            self.check_c05_local(ni, kind, pre, post, op);
            if self.on(P05) {
                self.cross_check_logs(ni, op);
            }
        }
        // ---------------- C04: a leader's matched index for a peer is backed by a durable ack
        if self.on(P04) && post.role == StateRole::Leader {
            let id = (ni + 1) as u64;
            for p in &post.prs {
                if p.id == id || p.matched <= self.g.s0 || p.id == 0 || p.id > NN as u64 {
                    continue;
                }
                if p.matched > post.last_index {
                    let (f, mt) = (p.id, p.matched);
                    self.violation("C04", "matched-beyond-leader-log", format!("leader {} records acknowledged index {} for {} but its own last index is {}", id, mt, f, post.last_index), op);
                    break;
                }
                if p.matched < post.log.base {
                    continue;
                }
                if let Some(t) = post.log.term(p.matched) {
                    let d = &self.dur[(p.id - 1) as usize];
                    // an acknowledgement that was still queued when a leader of a higher term rewrote the entry
                    // (before it was ever written) reaches the old leader stamped with the old term; it is
                    // harmless: the follower did not vote for that newer leader while it held the entry, so
                    // the old leader cannot complete a quorum with it (same rule as C06's superseded acks)
                    let fdisk = &nodes[(p.id - 1) as usize].disk;
                    let superseded = fdisk.term_of(p.matched.min(fdisk.last_index())).map_or(false, |t2| t2 > t);
                    if !(d.ents.contains(&(p.matched, t)) || p.matched <= d.snap || superseded) {
                        let (f, mt) = (p.id, p.matched);
                        self.violation(
                            "C04",
                            "matched-not-backed-by-durable-ack",
                            format!(
                                "leader {} (term {}) counts index {} (term {}) as acknowledged by {} but that entry was never durable there",
                                id, post.term, mt, t, f
                            ),
                            op,
                        );
                        break;
                    }
                }
            }
        }
        // ---------------- C03 A leader completeness
        if self.on(P03) && post.role == StateRole::Leader && (pre.role != StateRole::Leader || log_changed) {
            self.check_leader_complete(ni, post, op);
        }
        self.b_after_call(ni, kind, pre, post, nodes, op);
    }

    fn check_acked_kept(&mut self, ni: usize, log: &LogView, node_term: u64, how: &str, op: usize) {
        if let Some((i, t)) = self.prom[ni].acked {
            let kept = log.base >= i || log.term(i) == Some(t);
            // only a leader of a term above t can have rewritten (i, t): the node's term is then above t
            // (after a crash between the entries write and the hard-state write the term may lag the log:
            // an entry of a higher term in the log shows the same thing)
            let superseded = node_term > t || log.term(log.last()).map_or(false, |lt| lt > t) || log.term(i.min(log.last())).map_or(false, |t2| t2 > t);
            if !kept && !superseded {
                self.violation(
                    "C06",
                    "acknowledged-entry-lost",
                    format!(
                        "node {} released an acknowledgement for (index {}, term {}) but after {} its log (boundary {}, last {}, term there {:?}, last term {:?}) neither holds nor covers it",
                        ni + 1, i, t, how, log.base, log.last(), log.term(i), log.term(log.last())
                    ),
                    op,
                );
                self.prom[ni].acked = None;
            }
        }
    }

    fn track_acks(&mut self, ni: usize, kind: &CallKind, pre: &NodeObs, post: &NodeObs, op: usize) {
        let id = (ni + 1) as u64;
        if post.role != StateRole::Leader {
            return;
        }
        if pre.role != StateRole::Leader || pre.term != post.term {
            self.acked_by[ni].clear();
        }
        if let CallKind::Step(m) = kind {
            if m.get_msg_type() == MessageType::MsgAppendResponse && !m.reject && pre.role == StateRole::Leader && m.term == pre.term {
                let e = self.acked_by[ni].entry(m.from).or_insert(0);
                if m.index > *e {
                    *e = m.index;
                }
            }
        }
        for p in &post.prs {
            if p.id == id {
                continue;
            }
            let g = self.acked_by[ni].get(&p.id).copied().unwrap_or(0);
            if p.matched > g {
                let (f, mt) = (p.id, p.matched);
                let prop = if self.on(P04) { "C04" } else { "C13" };
                self.violation(
                    prop,
                    "matched-without-acknowledgement",
                    format!(
                        "leader {} (term {}) records index {} as acknowledged by {} but the highest index {} acknowledged to it in this term is {}",
                        id, post.term, mt, f, f, g
                    ),
                    op,
                );
                break;
            }
        }
    }

    fn check_leader_commit(&mut self, ni: usize, c1: u64, post: &NodeObs, nodes: &[Node], op: usize) {
        let t = post.term;
        if post.log.term(c1) != Some(t) {
            self.violation(
                "C04",
                "leader-committed-foreign-term",
                format!(
                    "leader {} of term {} advanced commit to {} whose entry has term {:?}",
                    ni + 1, t, c1, post.log.term(c1)
                ),
                op,
            );
            return;
        }
        let holds = |v: u64| -> bool {
            if v == 0 || v > NN as u64 {
                return false;
            }
            let d = &nodes[(v - 1) as usize].disk;
            d.snap_index >= c1 || (d.term_of(c1) == Some(t) && c1 > d.snap_index)
        };
        let volatile_holds = |v: u64| -> bool {
            if v == 0 || v > NN as u64 {
                return false;
            }
            let l = &self.logs[(v - 1) as usize];
            l.term(c1) == Some(t)
        };
        if !holds((ni + 1) as u64) {
            self.flags |= F_COMMIT_LEADER_DISK_BEHIND;
        }
        if post.conf.is_joint() {
            self.flags |= F_COMMIT_JOINT;
        }
        for set in [&post.conf.voters, &post.conf.outgoing] {
            if set.is_empty() {
                continue;
            }
            let cnt = set.iter().filter(|v| holds(**v)).count();
            if set.iter().any(|v| volatile_holds(*v) && !holds(*v)) {
                self.flags |= F_COMMIT_VOTER_VOLATILE_ONLY;
            }
            if cnt < set.len() / 2 + 1 {
                let set = set.clone();
                self.violation(
                    "C04",
                    "commit-without-durable-quorum",
                    format!(
                        "leader {} (term {}) committed index {} but only {} of voter set {:?} hold it durably",
                        ni + 1, t, c1, cnt, set
                    ),
                    op,
                );
                return;
            }
        }
    }

    fn check_leader_complete(&mut self, ni: usize, post: &NodeObs, op: usize) {
        let t = post.term;
        let hi = self.g.maxcommit.min(self.g.commit_term.len() as u64 - 1);
        let mut divergent_peer = false;
        for (j, l) in self.logs.iter().enumerate() {
            if j != ni && l.last() > self.g.s0 && (l.last() != post.log.last() || l.term(l.last()) != post.log.term(l.last())) {
                divergent_peer = true;
            }
        }
        let mut any_earlier = false;
        for i in (self.g.s0 + 1)..=hi {
            let ct = self.g.commit_term[i as usize];
            if ct == 0 || ct >= t {
                continue;
            }
            any_earlier = true;
            let want = match self.g.cl[i as usize] {
                Some(w) => w,
                None => continue,
            };
            if i < post.log.base {
                continue;
            }
            if i == post.log.base {
                if post.log.base_term != want.term {
                    self.violation(
                        "C03",
                        "leader-snapshot-term-mismatch",
                        format!("leader {} of term {} starts from a snapshot at {} with term {} but the committed entry there has term {}", ni + 1, t, i, post.log.base_term, want.term),
                        op,
                    );
                    return;
                }
                continue;
            }
            match post.log.get(i) {
                Some(ev) if ev == want => {}
                Some(ev) => {
                    self.violation(
                        "C03",
                        "leader-has-different-entry",
                        format!(
                            "leader {} of term {} holds (term {}, hash {:x}) at index {} but the leader of term {} committed (term {}, hash {:x}) there",
                            ni + 1, t, ev.term, ev.h, i, ct, want.term, want.h
                        ),
                        op,
                    );
                    return;
                }
                None => {
                    self.violation(
                        "C03",
                        "leader-misses-committed-entry",
                        format!(
                            "leader {} of term {} (last index {}) lacks index {} committed by the leader of term {}",
                            ni + 1, t, post.log.last(), i, ct
                        ),
                        op,
                    );
                    return;
                }
            }
        }
        if any_earlier && divergent_peer {
            self.flags |= F_LEADER_WITH_DIVERGENT_PEER;
        }
    }

    // ------------------------------------------------------------- C05

    fn check_c05_local(&mut self, ni: usize, kind: &CallKind, pre: &NodeObs, post: &NodeObs, op: usize) {
        // truncation statistics
        let lo = pre.log.base.max(post.log.base) + 1;
        let mut truncated = post.log.last() < pre.log.last();
        if !truncated {
            for i in lo..=pre.log.last().min(post.log.last()) {
                if pre.log.get(i) != post.log.get(i) {
                    truncated = true;
                    break;
                }
            }
        }
        if truncated {
            self.flags |= F_TRUNCATION;
            self.b.on_truncation(ni);
        }
        if !self.on(P05) {
            return;
        }
        if pre.role == StateRole::Leader && post.role == StateRole::Leader && pre.term == post.term {
            for i in lo..=pre.log.last() {
                if pre.log.get(i) != post.log.get(i) {
                    self.violation(
                        "C05",
                        "leader-rewrote-own-log",
                        format!("leader {} (term {}) changed or removed its entry at index {} in {}", ni + 1, post.term, i, kind.name()),
                        op,
                    );
                    return;
                }
            }
        }
        for i in lo..=pre.committed.min(pre.log.last()) {
            if pre.log.get(i) != post.log.get(i) {
                self.violation(
                    "C05",
                    "committed-entry-replaced",
                    format!(
                        "node {} replaced or lost the entry at index {} (commit index was {}) in {}",
                        ni + 1, i, pre.committed, kind.name()
                    ),
                    op,
                );
                return;
            }
        }
    }

    fn cross_check_logs(&mut self, ni: usize, op: usize) {
        let a = self.logs[ni].clone();
        for j in 0..NN {
            if j == ni {
                continue;
            }
            let b = &self.logs[j];
            if b.last() == 0 && b.base == 0 {
                continue;
            }
            let lo = a.base.max(b.base);
            let hi = a.last().min(b.last());
            if hi < lo {
                continue;
            }
            // highest common index with equal terms (boundaries count through term())
            let mut m = None;
            let mut i = hi;
            loop {
                if let (Some(ta), Some(tb)) = (a.term(i), b.term(i)) {
                    if ta == tb {
                        m = Some(i);
                        break;
                    }
                }
                if i == lo {
                    break;
                }
                i -= 1;
            }
            if let Some(m) = m {
                for k in (lo + 1)..=m {
                    let (ea, eb) = (a.get(k), b.get(k));
                    if let (Some(ea), Some(eb)) = (ea, eb) {
                        if ea != eb {
                            self.violation(
                                "C05",
                                "log-matching",
                                format!(
                                    "nodes {} and {} both hold (index {}, term {}) but differ at index {}: (term {}, hash {:x}) vs (term {}, hash {:x})",
                                    ni + 1, j + 1, m, a.term(m).unwrap(), k, ea.term, ea.h, eb.term, eb.h
                                ),
                                op,
                            );
                            return;
                        }
                    }
                }
                // boundary terms
                if a.base > b.base && a.base <= b.last() && a.base < m {
                    if b.term(a.base) != Some(a.base_term) {
                        self.violation(
                            "C05",
                            "log-matching-boundary",
                            format!("nodes {} and {} match at index {} but disagree on the term at {}", ni + 1, j + 1, m, a.base),
                            op,
                        );
                        return;
                    }
                }
                if b.base > a.base && b.base <= a.last() && b.base < m {
                    if a.term(b.base) != Some(b.base_term) {
                        self.violation(
                            "C05",
                            "log-matching-boundary",
                            format!("nodes {} and {} match at index {} but disagree on the term at {}", ni + 1, j + 1, m, b.base),
                            op,
                        );
                        return;
                    }
                }
            }
        }
    }

    // ------------------------------------------------------------- C06 release

    pub fn on_release(&mut self, ni: usize, m: &Message, meta: &MsgMeta, nodes: &[Node], op: usize) {
        let t = m.get_msg_type();
        if t == MessageType::MsgAppend && m.entries.len() > 0 {
            // size-limited split statistics
            let rn = nodes[ni].rn.as_ref();
            if let Some(rn) = rn {
                if nodes[ni].cfg.max_size_per_msg != u64::MAX && m.entries.last().unwrap().index < rn.raft.raft_log.last_index() {
                    self.flags |= F_SPLIT_APPEND;
                }
            }
        }
        if self.on(P06) {
            self.check_release(ni, m, meta, nodes, op);
        }
        // C01 (c): snapshots produced by a leader
        if t == MessageType::MsgSnapshot {
            let s = m.get_snapshot();
            self.check_snapshot_content(ni, s, "sent", op);
        }
        // bookkeeping of promises (after the check)
        let id = (ni + 1) as u64;
        let exempt = t == MessageType::MsgRequestPreVote
            || (t == MessageType::MsgRequestPreVoteResponse && !m.reject);
        let p = &mut self.prom[ni];
        if m.term != 0 && !exempt && m.term > p.max_term_released {
            p.max_term_released = m.term;
        }
        if t == MessageType::MsgAppendResponse && !m.reject {
            if let Some(gt) = meta.gen_term_at_index {
                p.acked = Some((m.index, gt));
            }
        }
        let grant = match t {
            MessageType::MsgRequestVote => Some(id),
            MessageType::MsgRequestVoteResponse if !m.reject => Some(m.to),
            _ => None,
        };
        if let Some(c) = grant {
            match p.granted.get(&m.term) {
                Some(prev) if *prev != c => {
                    let prev = *prev;
                    if self.on(P06) {
                        self.violation(
                            "C06",
                            "two-votes-in-term",
                            format!("node {} released votes for both {} and {} in term {}", id, prev, c, m.term),
                            op,
                        );
                    }
                }
                _ => {
                    p.granted.insert(m.term, c);
                }
            }
        }
        self.b_on_release(ni, m, meta, nodes, op);
    }

    fn check_release(&mut self, ni: usize, m: &Message, meta: &MsgMeta, nodes: &[Node], op: usize) {
        let t = m.get_msg_type();
        let id = (ni + 1) as u64;
        let dur = &self.dur[ni];
        let exempt = t == MessageType::MsgRequestPreVote
            || (t == MessageType::MsgRequestPreVoteResponse && !m.reject);
        // is the disk behind the volatile state right now?
        if let Some(rn) = nodes[ni].rn.as_ref() {
            let hs = rn.raft.hard_state();
            let d = &nodes[ni].disk;
            if hs.term != d.hs.term || hs.vote != d.hs.vote || rn.raft.raft_log.last_index() != d.last_index() {
                self.flags |= F_RELEASE_WHILE_DISK_LAGS;
            }
        }
        let mut bad: Option<(&'static str, String)> = None;
        if m.term != 0 && !exempt && dur.term < m.term {
            bad = Some((
                "released-before-term-durable",
                format!("durable term {} < message term {}", dur.term, m.term),
            ));
        }
        // A durable term above the message's term also keeps the promise: the node
        // can never again vote or lead in the lower term.
        let vote_ok = |expect: u64| -> bool { dur.term > m.term || dur.votes.get(&m.term) == Some(&expect) };
        if bad.is_none() {
            match t {
                MessageType::MsgRequestVote => {
                    if !vote_ok(id) {
                        bad = Some(("vote-request-before-vote-durable", format!("durable term {} vote in term {} is {:?}", dur.term, m.term, dur.votes.get(&m.term))));
                    }
                }
                MessageType::MsgRequestVoteResponse if !m.reject => {
                    if !vote_ok(m.to) {
                        bad = Some(("vote-grant-before-vote-durable", format!("durable term {} vote in term {} is {:?}, grant goes to {}", dur.term, m.term, dur.votes.get(&m.term), m.to)));
                    }
                }
                MessageType::MsgAppendResponse if !m.reject => {
                    if let Some(gt) = meta.gen_term_at_index {
                        // an entry replaced before it was ever written voids the acknowledgement harmlessly:
                        // only a leader of a term above the entry's can have rewritten it, so the node's
                        // log no longer holds (index, term) and its own term is above that term
                        let superseded = nodes[ni].rn.as_ref().map_or(false, |rn| {
                            log_view(rn).term(m.index) != Some(gt) && rn.raft.term > gt
                        });
                        if m.index > dur.snap && !dur.ents.contains(&(m.index, gt)) && !superseded {
                            bad = Some((
                                "append-ack-before-entries-durable",
                                format!("acknowledges index {} (term {}) which has never been durable (durable snapshot {})", m.index, gt, dur.snap),
                            ));
                        }
                    }
                }
                MessageType::MsgAppend
                | MessageType::MsgHeartbeat
                | MessageType::MsgSnapshot
                | MessageType::MsgTimeoutNow
                | MessageType::MsgReadIndexResp => {
                    if !vote_ok(id) {
                        bad = Some((
                            "leader-traffic-before-own-vote-durable",
                            format!("durable term {} vote in term {} is {:?}", dur.term, m.term, dur.votes.get(&m.term)),
                        ));
                    }
                }
                _ => {}
            }
        }
        if let Some((mon, why)) = bad {
            // precise tag for the listed finding F1: sender is leader and sole voter of its own configuration
            let sole = nodes[ni].rn.as_ref().map_or(false, |rn| rn.raft.state == StateRole::Leader && sole_voter(rn));
            if sole {
                self.prom[ni].f1_terms.insert(m.term);
            }
            let mon_s = if sole { format!("{}:sole-voter-leader", mon) } else { mon.to_string() };
            let mon = mon_s.as_str();
            self.violation(
                "C06",
                mon,
                format!("node {} released [{}]: {}", id, msg_brief(m), why),
                op,
            );
        }
    }

    fn check_snapshot_content(&mut self, ni: usize, s: &Snapshot, how: &str, op: usize) {
        let meta = s.get_metadata();
        let idx = meta.index;
        self.g.ensure(idx);
        if !self.on(P01) && !self.on(P15) {
            return;
        }
        let prop = if self.on(P01) { "C01" } else { "C15" };
        if let Some(Some(c)) = self.g.cl.get(idx as usize) {
            if c.term != meta.term {
                let c = *c;
                self.violation(
                    prop,
                    "snapshot-term-differs",
                    format!("node {} {} a snapshot at index {} with term {} but the committed entry there has term {}", ni + 1, how, idx, meta.term, c.term),
                    op,
                );
            }
        }
        if let (Some((di, dg)), Some(Some(want))) = (decode_snap_data(&s.data), self.g.d.get(idx as usize)) {
            if di == idx && dg != *want {
                self.violation(
                    prop,
                    "snapshot-state-differs",
                    format!("node {} {} a snapshot at index {} whose state digest differs from the state reached by applying the committed log", ni + 1, how, idx),
                    op,
                );
            }
        }
    }

    // ------------------------------------------------------------- ready / apply

    pub fn on_accessors(&mut self, ni: usize, viewed: usize, taken: usize, op: usize) {
        if self.on(P07) && viewed != taken {
            self.violation(
                "C07",
                "accessors-disagree",
                format!("node {}: Ready::messages() shows {} messages but take_messages() hands out {}", ni + 1, viewed, taken),
                op,
            );
        }
    }

    pub fn on_has_ready(&mut self, ni: usize, has: bool, nonempty: bool, op: usize) {
        if self.on(P07) && has != nonempty {
            self.violation(
                "C07",
                "has-ready-mismatch",
                format!("node {}: has_ready() == {} but ready() would {}return something", ni + 1, has, if nonempty { "" } else { "not " }),
                op,
            );
        }
    }

    pub fn on_ready(&mut self, ni: usize, rd: &Ready, is_async: bool, nodes: &[Node], op: usize) {
        for e in rd.committed_entries() {
            self.cl_report(ni, e.index, ev_of(e), "committed_entries", op);
        }
        if !rd.snapshot().is_empty() {
            self.flags |= F_SNAPSHOT_READY;
        }
        self.b_on_ready(ni, rd, is_async, nodes, op);
    }

    pub fn on_light_ready(&mut self, ni: usize, l: &LightReady, nodes: &[Node], op: usize) {
        for e in l.committed_entries() {
            self.cl_report(ni, e.index, ev_of(e), "committed_entries (light)", op);
        }
        self.b_on_light_ready(ni, l, nodes, op);
    }

    pub fn on_apply(&mut self, ni: usize, e: &Entry, applied_before: u64, nodes: &[Node], op: usize) {
        self.b_on_apply(ni, e, applied_before, nodes, op);
    }

    pub fn after_apply(&mut self, ni: usize, e: &Entry, new_conf: Option<&ConfState>, stale_conf_before: Option<&ConfView>, nodes: &[Node], op: usize) {
        if new_conf.is_some() {
            self.flags |= F_CONF_APPLIED;
        }
        // application state vs committed log
        let app = nodes[ni].cache.0.borrow().app.clone();
        if self.on(P01) || self.on(P15) {
            if let Some(Some(want)) = self.g.d.get(e.index as usize) {
                if *want != app.digest {
                    let prop = if self.on(P01) { "C01" } else { "C15" };
                    self.violation(
                        prop,
                        "applied-state-differs",
                        format!("node {}: state after applying index {} differs from the state of the committed log", ni + 1, e.index),
                        op,
                    );
                }
            }
        }
        let _ = EntryType::EntryNormal;
        self.b_after_apply(ni, e, new_conf, stale_conf_before, &app, nodes, op);
    }

    pub fn on_snapshot_installed(&mut self, ni: usize, s: &Snapshot, nodes: &[Node], op: usize) {
        self.flags |= F_SNAP_INSTALLED;
        self.check_snapshot_content(ni, s, "installed", op);
        let idx = s.get_metadata().index;
        if idx > self.g.maxcommit {
            self.g.maxcommit = idx;
        }
        self.b_on_snapshot_installed(ni, s, nodes, op);
    }

    /// True when the probe payload is known committed at or below `idx` (via CL hashes).
    pub fn probe_committed_below(&self, _idx: u64, _probe: &[u8]) -> bool {
        // conservative: compaction past the probe only happens after it was applied (AC8)
        true
    }

    pub fn note_liveness_start(&mut self, nodes: &[Node]) {
        let mut down = 0;
        let mut interesting = false;
        for n in nodes {
            match n.rn.as_ref() {
                None => {
                    if !n.destroyed && n.ever_started {
                        down += 1;
                    }
                }
                Some(rn) => {
                    let r = &rn.raft;
                    if r.state == StateRole::Leader {
                        if r.lead_transferee.is_some() {
                            interesting = true;
                        }
                        for (_, p) in r.prs().iter() {
                            if p.state == raft::ProgressState::Snapshot || p.ins.full() || (p.state == raft::ProgressState::Probe && p.paused) {
                                interesting = true;
                            }
                        }
                    }
                    if !r.prs().conf().to_conf_state().voters_outgoing.is_empty() || r.has_pending_conf() {
                        interesting = true;
                    }
                    if r.raft_log.last_index() > r.raft_log.committed && r.state != StateRole::Leader {
                        interesting = true;
                    }
                }
            }
        }
        if down >= 2 || interesting {
            self.flags |= F_LIVENESS_NONTRIVIAL;
        }
    }

    pub fn note_liveness_result(&mut self, rounds: usize, bound: usize) {
        self.b.liveness_rounds = rounds as u32;
        if rounds > bound {
            self.b.liveness_slow = true;
        }
    }

    pub fn on_applied_sync(&mut self, ni: usize, raft_applied: u64, app_applied: u64, how: &str, op: usize) {
        if (self.on(P07) || self.on(P15)) && raft_applied != app_applied {
            let prop = if self.on(P07) { "C07" } else { "C15" };
            self.violation(
                prop,
                "applied-index-out-of-sync",
                format!(
                    "node {}: after {} with everything handed out applied, the node's applied index is {} but the application is at {}",
                    ni + 1, how, raft_applied, app_applied
                ),
                op,
            );
        }
    }

    pub fn before_propose(&mut self, ni: usize, data: &[u8]) {
        self.b.before_propose(ni, data);
    }

    pub fn on_propose_result(&mut self, ni: usize, ok: bool, op: usize) {
        self.b_on_propose_result(ni, ok, op);
    }

    pub fn on_read_issued(&mut self, ni: usize, ctx: &[u8], nodes: &[Node], op: usize) {
        self.b_on_read_issued(ni, ctx, nodes, op);
    }

    pub fn on_compact(&mut self, ni: usize, to: u64, nodes: &[Node], _op: usize) {
        if let Some(rn) = nodes[ni].rn.as_ref() {
            self.logs[ni] = log_view(rn);
        } else {
            self.logs[ni] = LogView::from_core(&nodes[ni].disk);
        }
        self.b.on_compact(ni, to);
    }

    pub fn after_op(&mut self, nodes: &[Node], op: usize) {
        self.b_after_op(nodes, op);
    }

    pub fn finish(&mut self, nodes: &[Node], stats: &mut CaseStats) {
        if (stats.crashes > 0 || stats.conf_applied > 0) && stats.ops - stats.noops >= 30 {
            self.flags |= F_CRASH_OR_CONF_AND_30;
        }
        self.b_finish(nodes, stats);
        stats.flags = self.flags;
    }
}

pub fn is_promise(m: &Message) -> bool {
    matches!(
        m.get_msg_type(),
        MessageType::MsgRequestVote | MessageType::MsgRequestVoteResponse | MessageType::MsgAppendResponse
    ) && !m.reject
}
