//! Second half of the monitors: C07 (ready contract), C08 (read index), C09
//! (membership discipline), C13 (flow control), C15 (snapshots), C16 (pre-vote),
//! C17 (transfer). Hooks are `b_*` methods on `Mon`.

use std::collections::{BTreeMap, HashMap, HashSet};

use protobuf::Message as PbMessage;
use raft::eraftpb::{ConfChange, ConfChangeV2, ConfState, Entry, EntryType, HardState, Message, MessageType, Snapshot};
use raft::{LightReady, ProgressState, Ready, StateRole};

use crate::case::{CcSpec, Scenario, NN};
use crate::mon::*;
use crate::obs::*;
use crate::store::AppState;
use crate::world::{CallKind, CaseStats, Node, World};

#[derive(Default, Clone)]
pub struct NodeB {
    // ---- C07
    pub next_apply: u64,
    pub readies: u32,
    pub last_hs: HardState,
    pub handed_persist: HashMap<u64, u64>,
    pub pending_at_crash: bool,
    // ---- C13 uncommitted bytes
    pub lead_tail: u64,
    pub u_true: u64,
    pub ent_len: HashMap<u64, u64>,
    pub u_before_propose: u64,
    // ---- C13 cap model: (cap_now, cap_old)
    pub caps: HashMap<u64, (usize, usize)>,
    // ---- C15 leader side: expected minimal anchor after a finished snapshot
    pub min_anchor: HashMap<u64, u64>,
    // ---- C16
    pub prevote_grants: HashSet<u64>,
    // ---- C17
    pub transfer_ticks: (u64, usize),
    /// ghost of a pending transfer: (target, own ticks since the request was accepted)
    pub xfer: Option<(u64, usize)>,
    // ---- C13: snapshots sent and neither reported nor acknowledged
    pub snap_out: HashMap<u64, u64>,
    /// followers whose snapshot request reached this node in its current leadership and has not been
    /// answered by a status report yet
    pub snap_req: HashSet<u64>,
}

#[derive(Default)]
pub struct MonB {
    pub nb: Vec<NodeB>,
    /// ctx -> (issuer, maxcommit at issue, leaders seen at issue, forwarded)
    pub reads: HashMap<Vec<u8>, (usize, u64, usize, bool)>,
    pub partition_events: u32,
    pub hb_resp_dup: bool,
    pub trunc_since_ready: Vec<bool>,
    /// index -> configuration after applying that index (first report wins)
    pub conf_hist: BTreeMap<u64, ConfView>,
    pub conf_applied_by: HashMap<u64, HashSet<usize>>,
    pub last_advance: Option<(NodeObs, NodeObs)>,
    pub prevote_roles_seen: HashSet<u8>,
    pub snap_installed_on: HashSet<usize>,
    pub max_inflight_cfg: Vec<usize>,
    pub max_uncommitted_cfg: Vec<u64>,
    pub pre_vote: bool,
    pub last_propose_size: u64,
    pub last_propose_normal_only: bool,
    pub reads_answered: u32,
    pub liveness_rounds: u32,
    pub liveness_slow: bool,
    pub handoffs_completed: u32,
    /// (was leader, member, not transferring, true outstanding bytes, proposal bytes) of the last plain propose
    pub last_propose_ctx: Option<(bool, bool, bool, u64, u64)>,
}

impl MonB {
    pub fn init(&mut self, sc: &Scenario) {
        self.nb = vec![NodeB::default(); NN];
        self.trunc_since_ready = vec![false; NN];
        self.max_inflight_cfg = sc.nodes.iter().map(|n| n.max_inflight).collect();
        self.max_uncommitted_cfg = sc.nodes.iter().map(|n| n.max_uncommitted).collect();
        self.pre_vote = sc.pre_vote;
    }
    pub fn on_dup(&mut self, m: &Message) {
        if m.get_msg_type() == MessageType::MsgHeartbeatResponse {
            self.hb_resp_dup = true;
        }
    }
    pub fn on_truncation(&mut self, ni: usize) {
        self.trunc_since_ready[ni] = true;
    }
    pub fn before_propose(&mut self, ni: usize, data: &[u8]) {
        self.last_propose_size = data.len() as u64;
        self.last_propose_normal_only = true;
        self.nb[ni].u_before_propose = self.nb[ni].u_true;
    }
    pub fn on_compact(&mut self, _ni: usize, _to: u64) {}

    fn conf_lookup(&self, idx: u64) -> Option<&ConfView> {
        self.conf_hist.range(..=idx).next_back().map(|(_, v)| v)
    }
}

fn cc_of_entry(e: &Entry) -> Option<ConfChangeV2> {
    match e.get_entry_type() {
        EntryType::EntryConfChange => {
            let mut cc = ConfChange::default();
            cc.merge_from_bytes(&e.data).ok()?;
            Some(raft_proto::ConfChangeI::into_v2(cc))
        }
        EntryType::EntryConfChangeV2 => {
            let mut cc = ConfChangeV2::default();
            cc.merge_from_bytes(&e.data).ok()?;
            Some(cc)
        }
        _ => None,
    }
}

/// For a proposing call: per proposed entry `Some(want_leave)` for conf changes, `None` for normal entries.
fn proposed_items(kind: &CallKind) -> Option<Vec<Option<bool>>> {
    let of_spec = |s: &CcSpec| -> Option<bool> {
        let (_, v2) = World::build_cc(s);
        Some(v2.changes.is_empty())
    };
    match kind {
        CallKind::Propose { .. } => Some(vec![None]),
        CallKind::ProposeConf(s) => Some(vec![of_spec(s)]),
        CallKind::ProposeBatch(items) => Some(items.iter().map(|i| i.as_ref().and_then(of_spec)).collect()),
        CallKind::Step(m) if m.get_msg_type() == MessageType::MsgPropose => Some(
            m.entries
                .iter()
                .map(|e| cc_of_entry(e).map(|cc| cc.changes.is_empty()))
                .collect(),
        ),
        _ => None,
    }
}

fn quorum_of(conf: &ConfView, set: &HashSet<u64>) -> bool {
    for half in [&conf.voters, &conf.outgoing] {
        if half.is_empty() {
            continue;
        }
        let yes = half.iter().filter(|v| set.contains(v)).count();
        if yes < half.len() / 2 + 1 {
            return false;
        }
    }
    !conf.voters.is_empty() || !conf.outgoing.is_empty()
}

fn pr_of(o: &NodeObs, id: u64) -> Option<&PrView> {
    o.prs.iter().find(|p| p.id == id)
}

impl Mon {
    // ------------------------------------------------------------------ start / crash

    pub fn b_on_start(&mut self, ni: usize, post: &NodeObs, nodes: &[Node], first: bool, op: usize) {
        let applied = nodes[ni].disk.app.applied;
        let nb = &mut self.b.nb[ni];
        nb.next_apply = applied + 1;
        nb.last_hs = nodes[ni].rn.as_ref().unwrap().raft.hard_state();
        nb.handed_persist.clear();
        nb.lead_tail = 0;
        nb.u_true = 0;
        nb.ent_len.clear();
        nb.caps.clear();
        nb.min_anchor.clear();
        nb.snap_out.clear();
        nb.snap_req.clear();
        nb.prevote_grants.clear();
        nb.transfer_ticks = (0, 0);
        nb.xfer = None;
        if !first && nb.pending_at_crash {
            self.flags |= F_RESTART_MID_BATCH;
        }
        // C09 (c): configuration after restart is the configuration of the applied index
        if self.on(P09) || self.on(P15) {
            if !first && post.conf.is_joint() {
                self.flags |= F_JOINT_RESTORED;
            }
            self.check_conf_at(ni, applied, &post.conf, "restart", op);
        }
    }

    pub fn b_on_crash(&mut self, ni: usize, nodes: &[Node], _op: usize) {
        let n = &nodes[ni];
        self.b.nb[ni].pending_at_crash = !n.to_apply.is_empty() || !n.batches.is_empty();
    }

    fn check_conf_at(&mut self, ni: usize, idx: u64, conf: &ConfView, how: &str, op: usize) {
        if idx == 0 && conf.is_empty() {
            return;
        }
        let prop = if self.on(P09) { "C09" } else { "C15" };
        match self.b.conf_lookup(idx) {
            Some(want) => {
                if want != conf {
                    let want = want.clone();
                    self.violation(
                        prop,
                        "config-differs-at-applied-index",
                        format!(
                            "node {} ({}) at applied index {} has configuration {:?} but the applied log determines {:?}",
                            ni + 1, how, idx, conf, want
                        ),
                        op,
                    );
                }
            }
            None => {}
        }
    }

    // ------------------------------------------------------------------ messages

    pub fn b_on_new_msg(&mut self, _ni: usize, _m: &Message, _meta: &MsgMeta, _pre: &NodeObs, _op: usize) {}

    pub fn b_before_deliver(&mut self, ni: usize, m: &Message, _meta: &MsgMeta, nodes: &[Node], _op: usize) {
        let t = m.get_msg_type();
        if t == MessageType::MsgRequestPreVote {
            if let Some(rn) = nodes[ni].rn.as_ref() {
                self.b.prevote_roles_seen.insert(rn.raft.state as u8);
                if self.b.prevote_roles_seen.len() >= 2 {
                    self.flags |= F_PREVOTE_NONTRIVIAL;
                }
            }
        }
        if t == MessageType::MsgAppend && self.b.snap_installed_on.contains(&ni) {
            self.flags |= F_SNAP_THEN_APPEND;
        }
    }

    pub fn b_on_release(&mut self, ni: usize, m: &Message, _meta: &MsgMeta, _nodes: &[Node], op: usize) {
        let _ = (ni, m, op);
    }

    // ------------------------------------------------------------------ after every call

    pub fn b_after_call(&mut self, ni: usize, kind: &CallKind, pre: &NodeObs, post: &NodeObs, nodes: &[Node], op: usize) {
        let id = (ni + 1) as u64;
        let rn = match nodes[ni].rn.as_ref() {
            Some(r) => r,
            None => return,
        };
        if matches!(kind, CallKind::Advance | CallKind::AdvanceAppend) {
            self.b.last_advance = Some((pre.clone(), post.clone()));
        }
        // a restored snapshot rebuilds every Progress with the configured window size
        if pre.pending_snapshot != post.pending_snapshot && post.pending_snapshot.is_some() {
            self.b.nb[ni].caps.clear();
        }
        // became leader: reset leadership-scoped ghost
        if post.role == StateRole::Leader && (pre.role != StateRole::Leader || pre.term != post.term) {
            let nb = &mut self.b.nb[ni];
            nb.lead_tail = post.last_index.saturating_sub(1);
            nb.u_true = 0;
            nb.ent_len.clear();
            nb.min_anchor.clear();
            nb.snap_out.clear();
            nb.snap_req.clear();
            nb.transfer_ticks = (0, 0);
        }

        // ------------------------------------------------ C07: ready/advance never change the logical log
        if self.on(P07)
            && matches!(kind, CallKind::Ready | CallKind::AdvanceAppend | CallKind::AdvanceAsync | CallKind::OnPersist(_))
            && pre.log != post.log
        {
            self.violation(
                "C07",
                "log-changed-by-ready-or-advance",
                format!("node {}: {} changed the logical log (storage + unstable)", id, kind.name()),
                op,
            );
        }

        // ------------------------------------------------ C09
        if self.on(P09) {
            let app_applied = nodes[ni].cache.0.borrow().app.applied;
            self.c09_after_call(ni, kind, pre, post, app_applied, op);
        }
        // ------------------------------------------------ C16
        if self.on(P16) {
            self.c16_after_call(ni, kind, pre, post, op);
        }
        // ------------------------------------------------ C17
        if self.on(P17) {
            self.c17_after_call(ni, kind, pre, post, nodes, op);
        }
        // ------------------------------------------------ C15 follower side
        if self.on(P15) {
            self.c15_after_call(ni, kind, pre, post, op);
        }
        // ------------------------------------------------ C13
        if self.on(P13) || self.on(P15) || self.on(P17) {
            let drained = matches!(kind, CallKind::Ready | CallKind::Advance | CallKind::AdvanceAppend);
            if !drained && post.msgs_len >= pre.msgs_len {
                let msgs: Vec<Message> = rn.raft.msgs[pre.msgs_len.min(rn.raft.msgs.len())..].to_vec();
                self.leader_msgs(ni, kind, &msgs, pre, post, nodes, op);
            }
        }
        if self.on(P13) {
            self.c13_uncommitted(ni, kind, pre, post, nodes, op);
        }
    }

    // ------------------------------------------------------------------ C09

    fn c09_after_call(&mut self, ni: usize, kind: &CallKind, pre: &NodeObs, post: &NodeObs, app_applied: u64, op: usize) {
        let id = (ni + 1) as u64;
        // (a) what a leader appends
        if pre.role == StateRole::Leader && post.role == StateRole::Leader && pre.term == post.term && post.last_index > pre.last_index {
            let applied = match kind {
                CallKind::AdvanceApply(_) | CallKind::Advance => post.applied,
                _ => pre.applied,
            };
            let items = proposed_items(kind);
            if items.is_some() && (pre.pending_conf_index > pre.applied || pre.conf.is_joint()) {
                if items.as_ref().unwrap().iter().any(|i| i.is_some()) {
                    self.flags |= F_CONF_WHILE_PENDING;
                }
            }
            let mut joint_now = pre.conf.is_joint();
            let _ = &mut joint_now;
            for j in (pre.last_index + 1)..=post.last_index {
                let ev = match post.log.get(j) {
                    Some(e) => e,
                    None => continue,
                };
                let k = (j - pre.last_index - 1) as usize;
                let proposed = items.as_ref().and_then(|it| it.get(k).cloned()).flatten();
                if ev.ty != 0 {
                    // a membership entry was appended at j: nothing else may be pending before it
                    for i in (applied.max(post.log.base) + 1)..j {
                        if let Some(o) = post.log.get(i) {
                            if o.ty != 0 {
                                self.violation(
                                    "C09",
                                    "second-membership-entry-appended",
                                    format!(
                                        "leader {} appended a membership entry at {} while another one at {} is beyond its applied index {}",
                                        id, j, i, applied
                                    ),
                                    op,
                                );
                                return;
                            }
                        }
                    }
                    if let Some(want_leave) = proposed {
                        let joint = pre.conf.is_joint();
                        if joint && !want_leave {
                            self.violation("C09", "enter-joint-while-joint-kept", format!("leader {} kept a non-leave membership proposal at {} while its configuration is joint", id, j), op);
                            return;
                        }
                        if !joint && want_leave {
                            self.violation("C09", "leave-while-not-joint-kept", format!("leader {} kept a leave-joint proposal at {} while its configuration is not joint", id, j), op);
                            return;
                        }
                    }
                } else if let Some(want_leave) = proposed {
                    // neutralised: must be justified
                    let joint = pre.conf.is_joint();
                    let earlier_conf_in_batch = items.as_ref().map_or(false, |it| it[..k].iter().any(|x| x.is_some()));
                    let justified = pre.pending_conf_index > pre.applied
                        || (joint && !want_leave)
                        || (!joint && want_leave)
                        || earlier_conf_in_batch;
                    if !justified {
                        self.violation(
                            "C09",
                            "membership-proposal-dropped-without-reason",
                            format!("leader {} replaced a legal membership proposal at {} by an empty entry although nothing was pending", id, j),
                            op,
                        );
                        return;
                    }
                }
            }
        }
        // (b)+(d) a node starting an election
        let starts = pre.role == StateRole::Follower
            && matches!(post.role, StateRole::PreCandidate | StateRole::Candidate | StateRole::Leader)
            && !matches!(kind, CallKind::Step(m) if !matches!(m.get_msg_type(), MessageType::MsgTimeoutNow));
        if starts {
            // "unapplied locally" is judged by what the application really applied, not by the
            // node's own applied cursor (which a defect may have advanced too far)
            let lo = app_applied.min(pre.applied).max(pre.pending_snapshot.map_or(0, |s| s.0)).max(pre.log.base);
            for i in (lo + 1)..=pre.committed {
                if let Some(e) = pre.log.get(i) {
                    if e.ty != 0 {
                        self.violation(
                            "C09",
                            "election-with-unapplied-membership-change",
                            format!(
                                "node {} started an election ({}) while the committed membership change at {} is unapplied (applied {})",
                                id, kind.name(), i, pre.applied
                            ),
                            op,
                        );
                        return;
                    }
                }
            }
            let by_itself = matches!(kind, CallKind::Tick) || matches!(kind, CallKind::Step(m) if m.get_msg_type() == MessageType::MsgTimeoutNow);
            if by_itself && !pre.conf.is_voter(id) {
                self.violation(
                    "C09",
                    "non-voter-started-election",
                    format!("node {} is not a voter of its configuration {:?} but started an election on {}", id, pre.conf, kind.name()),
                    op,
                );
            }
        }
    }

    // ------------------------------------------------------------------ C16

    fn c16_after_call(&mut self, ni: usize, kind: &CallKind, pre: &NodeObs, post: &NodeObs, op: usize) {
        let id = (ni + 1) as u64;
        if let CallKind::Step(m) = kind {
            if m.get_msg_type() == MessageType::MsgRequestPreVote && (pre.term != post.term || pre.vote != post.vote) {
                self.violation(
                    "C16",
                    "prevote-request-changed-term-or-vote",
                    format!(
                        "node {}: handling a pre-vote request from {} changed (term, vote) from ({}, {}) to ({}, {})",
                        id, m.from, pre.term, pre.vote, post.term, post.vote
                    ),
                    op,
                );
            }
        }
        if !self.b.pre_vote {
            return;
        }
        // tally of granted pre-votes since this node last became pre-candidate
        let became_pre = post.role == StateRole::PreCandidate && (pre.role != StateRole::PreCandidate);
        if became_pre {
            self.b.nb[ni].prevote_grants.clear();
        }
        let mut granted_now = false;
        if let CallKind::Step(m) = kind {
            if m.get_msg_type() == MessageType::MsgRequestPreVoteResponse
                && !m.reject
                && pre.role == StateRole::PreCandidate
                && m.term == pre.term + 1
            {
                // (a grant with another term answers an earlier pre-campaign of this node: not a vote
                // of this round - finding F9, fixed)
                self.b.nb[ni].prevote_grants.insert(m.from);
                granted_now = true;
            }
        }
        let _ = granted_now;
        if pre.role == StateRole::PreCandidate && post.role == StateRole::Follower && post.term == pre.term {
            self.flags |= F_PREVOTE_NONTRIVIAL;
        }
        if post.term > pre.term {
            let mut allowed = false;
            if let CallKind::Step(m) = kind {
                let t = m.get_msg_type();
                let exempt = t == MessageType::MsgRequestPreVote || (t == MessageType::MsgRequestPreVoteResponse && !m.reject);
                if m.term > pre.term && !exempt {
                    allowed = true;
                }
                if t == MessageType::MsgTimeoutNow {
                    allowed = true;
                }
            }
            if !allowed {
                let mut set = self.b.nb[ni].prevote_grants.clone();
                set.insert(id);
                if post.term == pre.term + 1 && quorum_of(&pre.conf, &set) {
                    allowed = true;
                }
            }
            if !allowed {
                self.violation(
                    "C16",
                    "term-raised-without-prevote-quorum",
                    format!(
                        "node {} raised its term {} -> {} in {} without a pre-vote quorum (grants {:?}) and without being told of a higher term",
                        id, pre.term, post.term, kind.name(), self.b.nb[ni].prevote_grants
                    ),
                    op,
                );
            }
        }
    }

    // ------------------------------------------------------------------ C17

    fn c17_after_call(&mut self, ni: usize, kind: &CallKind, pre: &NodeObs, post: &NodeObs, _nodes: &[Node], op: usize) {
        let id = (ni + 1) as u64;
        let leader_both = pre.role == StateRole::Leader && post.role == StateRole::Leader && pre.term == post.term;
        // proposals refused while a transfer is pending
        if pre.role == StateRole::Leader && pre.transferee.is_some() && proposed_items(kind).is_some() {
            if post.log != pre.log {
                self.violation(
                    "C17",
                    "proposal-accepted-during-transfer",
                    format!("leader {} appended a proposal while transferring leadership to {:?}", id, pre.transferee),
                    op,
                );
            }
        }
        // transfer requests
        let req: Option<u64> = match kind {
            CallKind::Transfer(t) => Some(*t),
            // (a forwarded request stamped with a lower term is dropped before it reaches the leader logic)
            CallKind::Step(m) if m.get_msg_type() == MessageType::MsgTransferLeader && (m.term == 0 || m.term >= pre.term) => Some(m.from),
            _ => None,
        };
        if let (Some(t), true) = (req, leader_both) {
            let is_learner = pre.conf.learners.contains(&t);
            let has_pr = pr_of(pre, t).is_some();
            if matches!(kind, CallKind::Step(_)) {
                self.flags |= F_TRANSFER_NONTRIVIAL;
            }
            if is_learner || !has_pr {
                if post.transferee != pre.transferee || post.msgs_len != pre.msgs_len {
                    self.violation(
                        "C17",
                        "transfer-to-learner-or-unknown-not-ignored",
                        format!("leader {}: a transfer request naming {} (learner: {}, tracked: {}) changed its state", id, t, is_learner, has_pr),
                        op,
                    );
                }
            } else if t == id {
                if post.transferee.is_some() {
                    self.violation("C17", "transfer-to-self-left-pending", format!("leader {}: a transfer request naming itself left a transfer pending ({:?})", id, post.transferee), op);
                }
            } else {
                if let Some(p) = pr_of(pre, t) {
                    if p.matched < pre.last_index {
                        self.flags |= F_TRANSFER_NONTRIVIAL;
                    }
                }
                if pre.transferee.is_some() && pre.transferee != Some(t) {
                    self.flags |= F_TRANSFER_NONTRIVIAL;
                }
            }
        }
        // ---- ghost of the pending transfer, independent of the crate's own field
        if !leader_both {
            self.b.nb[ni].xfer = None;
        } else {
            if let Some(t) = req {
                let is_learner = pre.conf.learners.contains(&t);
                let has_pr = pr_of(pre, t).is_some();
                if is_learner || !has_pr {
                    // ignored
                } else if t == id {
                    self.b.nb[ni].xfer = None;
                } else if self.b.nb[ni].xfer.map(|x| x.0) != Some(t) {
                    self.b.nb[ni].xfer = Some((t, 0));
                }
            }
            if matches!(kind, CallKind::Tick) {
                if let Some((t, k)) = self.b.nb[ni].xfer {
                    self.b.nb[ni].xfer = if k + 1 >= self.election_tick { None } else { Some((t, k + 1)) };
                }
            }
            if let Some((t, _)) = self.b.nb[ni].xfer {
                if !post.conf.is_voter(t) {
                    self.b.nb[ni].xfer = None;
                }
            }
            if let Some((t, k)) = self.b.nb[ni].xfer {
                // well inside the election timeout the transfer must still be pending
                if k + 2 < self.election_tick && post.transferee != Some(t) && post.conf.is_voter(id) {
                    self.violation(
                        "C17",
                        "transfer-abandoned-early",
                        format!(
                            "leader {} accepted a transfer to {} {} of its ticks ago (election timeout {}) but no longer treats it as pending after {} (pending now: {:?})",
                            id, t, k, self.election_tick, kind.name(), post.transferee
                        ),
                        op,
                    );
                    self.b.nb[ni].xfer = None;
                }
            }
        }
        // abandon after one election timeout
        if matches!(kind, CallKind::Tick) && leader_both {
            let nb = &mut self.b.nb[ni];
            match (pre.transferee, post.transferee) {
                (Some(a), Some(b)) if a == b => {
                    if nb.transfer_ticks.0 == a {
                        nb.transfer_ticks.1 += 1;
                    } else {
                        nb.transfer_ticks = (a, 1);
                    }
                    if nb.transfer_ticks.1 > self.election_tick {
                        let n = nb.transfer_ticks.1;
                        self.violation(
                            "C17",
                            "transfer-not-abandoned",
                            format!("leader {} kept a transfer to {} pending for {} of its own ticks (election timeout {})", id, a, n, self.election_tick),
                            op,
                        );
                    }
                }
                (Some(_), None) => {
                    self.flags |= F_TRANSFER_NONTRIVIAL;
                    nb.transfer_ticks = (0, 0);
                }
                _ => nb.transfer_ticks = (0, 0),
            }
        } else if pre.transferee != post.transferee {
            self.b.nb[ni].transfer_ticks = (post.transferee.unwrap_or(0), 0);
        }
        // target leaves the voters
        if matches!(kind, CallKind::ApplyConf(_)) && post.role == StateRole::Leader {
            if let Some(x) = pre.transferee {
                // (a leader that removed itself in the same change is the separate matter F4)
                if !post.conf.is_voter(x) && post.transferee.is_some() && post.conf.is_voter(id) {
                    self.violation(
                        "C17",
                        "transfer-kept-after-target-left-voters",
                        format!("leader {} still transfers to {} after applying a change that removed it from the voters", id, x),
                        op,
                    );
                }
            }
        }
    }

    // ------------------------------------------------------------------ C15 follower side

    fn c15_after_call(&mut self, ni: usize, kind: &CallKind, pre: &NodeObs, post: &NodeObs, op: usize) {
        let id = (ni + 1) as u64;
        if let CallKind::ReportSnapshot(f, ok) = kind {
            if *ok && pre.role == StateRole::Leader {
                if let Some(p) = pr_of(pre, *f) {
                    if p.state == ProgressState::Snapshot && p.pending_snapshot > 0 {
                        self.b.nb[ni].min_anchor.insert(*f, p.pending_snapshot);
                    }
                }
            }
        }
        // an acknowledgement (possibly an old one) from the follower re-positions the leader by itself;
        // the expectation only concerns replication resumed on the strength of the report
        if let CallKind::Step(m) = kind {
            if m.get_msg_type() == MessageType::MsgAppendResponse {
                self.b.nb[ni].min_anchor.remove(&m.from);
            }
        }
        let m = match kind {
            CallKind::Step(m) if m.get_msg_type() == MessageType::MsgSnapshot => m,
            _ => return,
        };
        // only snapshots that reach the snapshot handler (not dropped for a lower term)
        if m.term < pre.term {
            return;
        }
        let meta = m.get_snapshot().get_metadata();
        let (si, st) = (meta.index, meta.term);
        let sconf = ConfView::from_cs(meta.get_conf_state());
        let installed = post.pending_snapshot == Some((si, st)) && pre.pending_snapshot != post.pending_snapshot;
        if installed {
            if si < pre.committed {
                self.violation("C15", "stale-snapshot-installed", format!("node {} installed a snapshot at {} behind its commit index {}", id, si, pre.committed), op);
            }
            if !sconf.is_member(id) {
                self.violation("C15", "non-member-installed-snapshot", format!("node {} installed a snapshot whose configuration {:?} does not list it", id, sconf), op);
            }
            if post.committed != si || post.last_index != si || post.log.term(si) != Some(st) {
                self.violation(
                    "C15",
                    "log-state-after-install",
                    format!(
                        "node {} after installing snapshot ({}, {}): commit {}, last index {}, boundary term {:?}",
                        id, si, st, post.committed, post.last_index, post.log.term(si)
                    ),
                    op,
                );
            }
            if post.conf != sconf {
                self.violation("C15", "config-after-install", format!("node {} has configuration {:?} after installing a snapshot carrying {:?}", id, post.conf, sconf), op);
            }
            self.check_conf_at(ni, si, &post.conf, "snapshot install", op);
            if sconf.is_joint() {
                self.flags |= F_JOINT_RESTORED;
            }
        } else {
            self.flags |= F_SNAP_IGNORED_OR_FF;
            let matches_local = pre.log.term(si) == Some(st) && si >= pre.log.base;
            if matches_local && pre.pending_request_snapshot == 0 && si >= pre.committed && sconf.is_member(id) && pre.role == StateRole::Follower {
                if post.log != pre.log {
                    self.violation("C15", "matching-snapshot-discarded-log", format!("node {}: a snapshot ({}, {}) matching its log changed the log", id, si, st), op);
                }
                if post.committed != pre.committed.max(si) {
                    self.violation(
                        "C15",
                        "matching-snapshot-commit",
                        format!("node {}: a snapshot ({}, {}) matching its log left commit at {} (was {})", id, si, st, post.committed, pre.committed),
                        op,
                    );
                }
            } else if post.log != pre.log {
                self.violation("C15", "ignored-snapshot-changed-log", format!("node {}: an ignored snapshot ({}, {}) changed the log", id, si, st), op);
            }
        }
    }

    // ------------------------------------------------------------------ C13 / C15 / C17: messages a leader emits

    fn leader_msgs(&mut self, ni: usize, kind: &CallKind, msgs: &[Message], pre: &NodeObs, post: &NodeObs, nodes: &[Node], op: usize) {
        let id = (ni + 1) as u64;
        if post.role != StateRole::Leader {
            return;
        }
        let same_lead = pre.role == StateRole::Leader && pre.term == post.term;
        let from: Option<u64> = match kind {
            CallKind::Step(m) => Some(m.from),
            CallKind::ReportSnapshot(f, _) | CallKind::ReportUnreachable(f) => Some(*f),
            _ => None,
        };
        // ghost of outstanding snapshots: cleared by a status report or an acknowledgement at/after it
        match kind {
            CallKind::ReportSnapshot(f, _) => {
                self.b.nb[ni].snap_out.remove(f);
                // a status report only concludes a request whose snapshot is actually under way
                if pr_of(pre, *f).map_or(true, |p| p.state == ProgressState::Snapshot) {
                    self.b.nb[ni].snap_req.remove(f);
                }
            }
            CallKind::Step(m)
                if m.get_msg_type() == MessageType::MsgAppendResponse && m.reject && m.request_snapshot != 0 && same_lead && m.term == pre.term =>
            {
                self.b.nb[ni].snap_req.insert(m.from);
            }
            CallKind::Step(m) if m.get_msg_type() == MessageType::MsgAppendResponse && !m.reject => {
                if let Some(s) = self.b.nb[ni].snap_out.get(&m.from).copied() {
                    if m.index >= s {
                        self.b.nb[ni].snap_out.remove(&m.from);
                    }
                }
            }
            _ => {}
        }
        {
            let ids: HashSet<u64> = post.prs.iter().map(|p| p.id).collect();
            self.b.nb[ni].snap_out.retain(|k, _| ids.contains(k));
            // a membership change may remove and re-add a peer in one step: its progress is new
            if let CallKind::ApplyConf(recreated) = kind {
                self.b.nb[ni].snap_out.retain(|k, _| !recreated.contains(k));
            }
        }
        let mut appends_with_entries: HashMap<u64, usize> = HashMap::new();
        let mut appends_any: HashMap<u64, usize> = HashMap::new();
        for m in msgs {
            match m.get_msg_type() {
                MessageType::MsgAppend => {
                    // C15 leader side: the first append generated after a finished snapshot is anchored at or after it
                    if self.on(P15) {
                        if let Some(min) = self.b.nb[ni].min_anchor.remove(&m.to) {
                            if m.index < min {
                                self.violation(
                                    "C15",
                                    "append-anchored-before-finished-snapshot",
                                    format!(
                                        "leader {} resumed replication to {} with an append anchored at {} after a snapshot at {} was reported finished",
                                        id, m.to, m.index, min
                                    ),
                                    op,
                                );
                            }
                        }
                    }
                    if self.on(P13) {
                        if let Some(s) = self.b.nb[ni].snap_out.get(&m.to).copied() {
                            self.violation(
                                "C13",
                                "append-while-snapshot-outstanding",
                                format!(
                                    "leader {} sent an append (anchor {}) to {} while its snapshot at {} is neither reported nor acknowledged",
                                    id, m.index, m.to, s
                                ),
                                op,
                            );
                        }
                    }
                    *appends_any.entry(m.to).or_insert(0) += 1;
                    if !m.entries.is_empty() {
                        *appends_with_entries.entry(m.to).or_insert(0) += 1;
                    }
                    if self.on(P13) {
                        self.check_append_shape(ni, m, post, op);
                    }
                }
                MessageType::MsgHeartbeat => {
                    if self.on(P13) {
                        let matched = pr_of(post, m.to).map_or(0, |p| p.matched);
                        if m.commit > post.committed.min(matched) {
                            self.violation(
                                "C13",
                                "heartbeat-commit-too-high",
                                format!("leader {} heartbeat to {} advertises commit {} > min(commit {}, acknowledged {})", id, m.to, m.commit, post.committed, matched),
                                op,
                            );
                        }
                    }
                }
                MessageType::MsgSnapshot => {
                    self.b.nb[ni].snap_out.insert(m.to, m.get_snapshot().get_metadata().index);
                    if self.on(P15) {
                        let p = pr_of(post, m.to);
                        // asked for: the request was delivered to this node while it has been leader of this
                        // term (the node's own bookkeeping is not taken as evidence)
                        let requested = self.b.nb[ni].snap_req.contains(&m.to);
                        let unavailable = p.map_or(false, |p| p.next_idx <= post.log.base);
                        if !requested && !unavailable {
                            self.violation(
                                "C15",
                                "needless-snapshot",
                                format!(
                                    "leader {} sent a snapshot to {} although entries from next index {:?} are available (first retained {}) and none was requested",
                                    id, m.to, p.map(|p| p.next_idx), post.log.base + 1
                                ),
                                op,
                            );
                        }
                    }
                }
                MessageType::MsgTimeoutNow => {
                    if self.on(P17) {
                        let matched = pr_of(post, m.to).map_or(0, |p| p.matched);
                        if matched != post.last_index {
                            self.violation(
                                "C17",
                                "timeout-now-to-lagging-target",
                                format!("leader {} told {} to campaign although it acknowledged {} of last index {}", id, m.to, matched, post.last_index),
                                op,
                            );
                        }
                    }
                }
                _ => {}
            }
        }
        if !self.on(P13) {
            return;
        }
        let _ = nodes;
        // ---- flow control per follower
        for p in &post.prs {
            if p.id == id {
                continue;
            }
            let f = p.id;
            // capacity model
            let cfg_cap = self.b.max_inflight_cfg[ni];
            let caps = self.b.nb[ni].caps.entry(f).or_insert((cfg_cap, cfg_cap));
            if p.ins_count == 0 {
                caps.1 = caps.0;
            }
            let allowed = caps.0.max(caps.1);
            if p.ins_full {
                self.flags |= F_WINDOW_FULL;
            }
            if p.state == ProgressState::Replicate && p.ins_count > allowed {
                self.violation(
                    "C13",
                    "inflight-window-exceeded",
                    format!("leader {} tracks {} unacknowledged appends to {} but at most {} are allowed", id, p.ins_count, f, allowed),
                    op,
                );
            }
            let pp = match pr_of(pre, f) {
                Some(pp) if same_lead => pp,
                _ => continue,
            };
            let n_any = appends_any.get(&f).copied().unwrap_or(0);
            let n_ent = appends_with_entries.get(&f).copied().unwrap_or(0);
            let from_f = from == Some(f);
            let neutral = !from_f && !matches!(kind, CallKind::Knob | CallKind::ApplyConf(_));
            if pp.state == ProgressState::Snapshot && p.state == ProgressState::Snapshot && n_any > 0 {
                self.violation("C13", "append-while-snapshot-outstanding", format!("leader {} sent an append to {} while a snapshot is outstanding", id, f), op);
            }
            if pp.state == ProgressState::Probe && pp.paused && neutral && n_any > 0 {
                self.violation("C13", "append-while-probe-paused", format!("leader {} sent an append to {} whose probe is paused, in {}", id, f, kind.name()), op);
            }
            if pp.state == ProgressState::Probe && p.state == ProgressState::Probe && n_ent > 1 {
                self.violation("C13", "several-appends-while-probing", format!("leader {} sent {} entry-carrying appends to {} while probing", id, n_ent, f), op);
            }
            if pp.state == ProgressState::Replicate && pp.ins_full && neutral && n_any > 0 {
                self.violation("C13", "append-while-window-full", format!("leader {} sent an append to {} although the inflight window was full, in {}", id, f, kind.name()), op);
            }
            if pp.state == ProgressState::Replicate && p.state == ProgressState::Replicate && neutral {
                // nothing can be freed in such a call: every entry-carrying append occupies a slot
                if p.ins_count != pp.ins_count + n_ent && !post.batch_append {
                    self.violation(
                        "C13",
                        "inflight-accounting",
                        format!(
                            "leader {}: {} entry-carrying appends to {} in {} but tracked unacknowledged count went {} -> {}",
                            id, n_ent, f, kind.name(), pp.ins_count, p.ins_count
                        ),
                        op,
                    );
                }
            }
            if pp.next_idx > p.next_idx && from_f {
                self.flags |= F_REJECT_MOVED_NEXT;
            }
        }
    }

    fn check_append_shape(&mut self, ni: usize, m: &Message, post: &NodeObs, op: usize) {
        let id = (ni + 1) as u64;
        let mut bad: Option<String> = None;
        if m.index >= post.log.base && post.log.term(m.index) != Some(m.log_term) {
            bad = Some(format!("anchored at ({}, {}) but the leader's log has term {:?} there", m.index, m.log_term, post.log.term(m.index)));
        }
        let mut size = 0u64;
        for (k, e) in m.entries.iter().enumerate() {
            let want_idx = m.index + 1 + k as u64;
            if e.index != want_idx {
                bad = Some(format!("entry #{} has index {} but the anchor {} requires {}", k, e.index, m.index, want_idx));
                break;
            }
            if post.log.get(e.index) != Some(ev_of(e)) {
                bad = Some(format!("entry at {} differs from the leader's own log", e.index));
                break;
            }
            size += e.compute_size() as u64;
        }
        if bad.is_none() && m.commit > post.committed {
            bad = Some(format!("advertises commit {} above the leader's commit {}", m.commit, post.committed));
        }
        if bad.is_none() && !post.batch_append && post.max_msg_size != u64::MAX && m.entries.len() > 1 && size > post.max_msg_size {
            bad = Some(format!("carries {} entries of {} bytes, above max_size_per_msg {}", m.entries.len(), size, post.max_msg_size));
        }
        if let Some(b) = bad {
            self.violation("C13", "malformed-append", format!("leader {} -> {}: append {}", id, m.to, b), op);
        }
    }

    // ------------------------------------------------------------------ C13 uncommitted bytes

    fn c13_uncommitted(&mut self, ni: usize, kind: &CallKind, pre: &NodeObs, post: &NodeObs, nodes: &[Node], op: usize) {
        let id = (ni + 1) as u64;
        if let CallKind::Knob = kind {
            // capacity changes: remember the previous capacity until the window drains
            for p in &post.prs {
                let cfg_cap = self.b.max_inflight_cfg[ni];
                let _ = self.b.nb[ni].caps.entry(p.id).or_insert((cfg_cap, cfg_cap));
            }
        }
        if let CallKind::Propose { len } = kind {
            self.b.last_propose_ctx = Some((
                pre.role == StateRole::Leader,
                pre.has_self_progress,
                pre.transferee.is_none(),
                self.b.nb[ni].u_true,
                *len as u64,
            ));
        }
        // a membership change may remove and re-add a peer in one step: the new Progress has the configured window
        if let CallKind::ApplyConf(recreated) = kind {
            for f in recreated {
                self.b.nb[ni].caps.remove(f);
            }
        }
        // progress objects that disappeared lose their capacity model (in every role: a follower tracks
        // progress too, and a capacity set there is gone with the Progress when the peer leaves)
        {
            let ids: HashSet<u64> = post.prs.iter().map(|p| p.id).collect();
            self.b.nb[ni].caps.retain(|k, _| ids.contains(k));
        }
        if !(pre.role == StateRole::Leader && post.role == StateRole::Leader && pre.term == post.term) {
            return;
        }
        if post.last_index > pre.last_index {
            // entries this leader appended now
            let rn = nodes[ni].rn.as_ref().unwrap();
            let mut size = 0u64;
            for e in &rn.raft.raft_log.unstable.entries {
                if e.index > pre.last_index && e.index <= post.last_index {
                    let l = e.data.len() as u64;
                    self.b.nb[ni].ent_len.insert(e.index, l);
                    size += l;
                }
            }
            let max = self.b.max_uncommitted_cfg[ni];
            let u = self.b.nb[ni].u_true;
            if proposed_items(kind).is_some() && max != u64::MAX && !(size == 0 || u == 0 || u + size <= max) {
                self.violation(
                    "C13",
                    "uncommitted-size-exceeded",
                    format!(
                        "leader {} accepted a proposal of {} payload bytes while {} accepted bytes are not yet handed out as committed (max_uncommitted_size {})",
                        id, size, u, max
                    ),
                    op,
                );
            }
            self.b.nb[ni].u_true += size;
        }
    }

    pub fn b_on_propose_result(&mut self, ni: usize, ok: bool, op: usize) {
        if !self.on(P13) || ok || !self.b.last_propose_normal_only {
            self.b.last_propose_normal_only = false;
            return;
        }
        self.b.last_propose_normal_only = false;
        // refused although leader, member and not transferring: it can only be for size
        if let Some((leader, member, no_transfer, u, size)) = self.b.last_propose_ctx.take() {
            if leader && member && no_transfer && self.b.max_uncommitted_cfg[ni] != u64::MAX {
                self.flags |= F_REFUSED_FOR_SIZE;
                if size == 0 || u == 0 {
                    self.violation(
                        "C13",
                        "proposal-refused-without-cause",
                        format!(
                            "leader {} refused a proposal of {} payload bytes while {} accepted bytes were outstanding (empty payloads and the first outstanding proposal must be admitted)",
                            ni + 1, size, u
                        ),
                        op,
                    );
                }
            }
        }
    }

    pub fn on_cap_change(&mut self, ni: usize, target: u64, cap: usize, count_now: usize) {
        let cfg_cap = self.b.max_inflight_cfg[ni];
        let e = self.b.nb[ni].caps.entry(target).or_insert((cfg_cap, cfg_cap));
        let old = e.0.max(e.1);
        *e = (cap, if count_now > 0 { old } else { cap });
        if count_now > 0 {
            self.flags |= F_CAP_CHANGE_NONEMPTY;
        }
    }

    // ------------------------------------------------------------------ ready / light ready

    fn handed_out(&mut self, ni: usize, ents: &[Entry], what: &str, nodes: &[Node], op: usize) {
        if ents.is_empty() {
            return;
        }
        let id = (ni + 1) as u64;
        let rn = nodes[ni].rn.as_ref().unwrap();
        let role = rn.raft.state;
        // C13 ghost: bytes handed out as committed while leader
        if role == StateRole::Leader {
            let nb = &mut self.b.nb[ni];
            for e in ents {
                if e.index > nb.lead_tail {
                    let l = nb.ent_len.remove(&e.index).unwrap_or(0);
                    nb.u_true = nb.u_true.saturating_sub(l);
                }
            }
        }
        if !(self.on(P07) || self.on(P15)) {
            self.b.nb[ni].next_apply = ents.last().unwrap().index + 1;
            return;
        }
        let prop = if self.on(P07) { "C07" } else { "C15" };
        let log = log_view(rn);
        let committed = rn.raft.raft_log.committed;
        let mut expect = self.b.nb[ni].next_apply;
        let mut size = 0u64;
        let mut not_on_disk = 0u64;
        for e in ents {
            if e.index != expect {
                self.violation(
                    prop,
                    "hand-out-gap-or-duplicate",
                    format!("node {} {}: committed entry {} handed out but {} was expected next", id, what, e.index, expect),
                    op,
                );
                break;
            }
            if log.get(e.index) != Some(ev_of(e)) {
                self.violation(prop, "hand-out-differs-from-log", format!("node {} {}: handed-out entry {} differs from the node's log", id, what, e.index), op);
                break;
            }
            if e.index > committed {
                self.violation(prop, "hand-out-beyond-commit", format!("node {} {}: entry {} handed out above commit index {}", id, what, e.index, committed), op);
                break;
            }
            let d = &nodes[ni].disk;
            let on_disk = d.snap_index >= e.index || d.term_of(e.index) == Some(e.term);
            if !on_disk {
                not_on_disk += 1;
            } else if not_on_disk > 0 {
                // unpersisted entries must be the last ones
                not_on_disk += 1;
            }
            size += e.compute_size() as u64;
            expect += 1;
        }
        self.b.nb[ni].next_apply = expect;
        if self.on(P07) {
            let limit = if role == StateRole::Leader { rn.raft.raft_log.max_apply_unpersisted_log_limit } else { 0 };
            if not_on_disk > limit {
                self.violation(
                    "C07",
                    "unpersisted-entries-handed-out",
                    format!(
                        "node {} {}: {} handed-out committed entries are not on its disk (apply-before-persist limit {})",
                        id, what, not_on_disk, limit
                    ),
                    op,
                );
            }
            let max = rn.verif_view().max_committed_size_per_ready;
            if max != u64::MAX && ents.len() > 1 && size > max {
                self.violation(
                    "C07",
                    "pagination-exceeded",
                    format!("node {} {}: {} committed entries of {} bytes in one batch, max_committed_size_per_ready {}", id, what, ents.len(), size, max),
                    op,
                );
            }
            let upper = committed.min(rn.raft.raft_log.persisted + limit);
            if ents.last().unwrap().index < upper {
                self.flags |= F_PAGINATION;
            }
        }
    }

    pub fn b_on_ready(&mut self, ni: usize, rd: &Ready, _is_async: bool, nodes: &[Node], op: usize) {
        let id = (ni + 1) as u64;
        let rn = nodes[ni].rn.as_ref().unwrap();
        {
            let nb = &mut self.b.nb[ni];
            nb.readies += 1;
            if nb.readies >= 3 {
                self.flags |= F_THREE_READIES;
            }
        }
        if nodes[ni].batches.len() >= 1 {
            // this Ready will be outstanding together with at least one earlier one
            self.flags |= F_MULTI_OUTSTANDING_READY;
        }
        if self.b.trunc_since_ready[ni] {
            self.flags |= F_TRUNC_BETWEEN_READIES;
            self.b.trunc_since_ready[ni] = false;
        }
        // ---- C08 read states
        for rs in rd.read_states() {
            self.on_read_state(ni, &rs.request_ctx, rs.index, op);
        }
        // ---- snapshot
        if !rd.snapshot().is_empty() {
            let si = rd.snapshot().get_metadata().index;
            if self.on(P07) && !rd.committed_entries().is_empty() {
                self.violation("C07", "snapshot-ready-with-committed-entries", format!("node {}: a Ready carries a snapshot at {} and committed entries", id, si), op);
            }
            self.b.nb[ni].next_apply = si + 1;
            self.b.nb[ni].handed_persist.clear();
        }
        // ---- committed entries
        let ce: Vec<Entry> = rd.committed_entries().clone();
        self.handed_out(ni, &ce, "Ready", nodes, op);
        if !self.on(P07) {
            if let Some(hs) = rd.hs() {
                self.b.nb[ni].last_hs = hs.clone();
            }
            return;
        }
        // ---- entries to persist: exactly the unstable suffix, each (index, term) once
        let un = &rn.raft.raft_log.unstable.entries;
        if rd.entries().len() != un.len() || rd.entries().iter().zip(un.iter()).any(|(a, b)| a != b) {
            self.violation("C07", "entries-not-unstable-suffix", format!("node {}: Ready.entries is not the current unstable suffix", id), op);
        }
        for e in rd.entries() {
            if self.b.nb[ni].handed_persist.get(&e.index) == Some(&e.term) {
                self.violation(
                    "C07",
                    "entry-handed-for-persistence-twice",
                    format!("node {}: entry ({}, {}) handed out for persistence a second time without a rewrite in between", id, e.index, e.term),
                    op,
                );
                break;
            }
        }
        if let Some(first) = rd.entries().first() {
            let fi = first.index;
            self.b.nb[ni].handed_persist.retain(|i, _| *i < fi);
        }
        for e in rd.entries() {
            self.b.nb[ni].handed_persist.insert(e.index, e.term);
        }
        // ---- hard state and must_sync
        let cur = rn.raft.hard_state();
        let last = self.b.nb[ni].last_hs.clone();
        match rd.hs() {
            Some(hs) => {
                if *hs != cur {
                    self.violation("C07", "hs-not-latest", format!("node {}: Ready.hs {:?} is not the node's current hard state {:?}", id, hs, cur), op);
                }
                if *hs == last {
                    self.violation("C07", "hs-handed-unchanged", format!("node {}: Ready.hs {:?} equals the hard state handed out last", id, hs), op);
                }
            }
            None => {
                if cur != last {
                    self.violation("C07", "hs-change-not-handed", format!("node {}: hard state changed {:?} -> {:?} but Ready.hs is None", id, last, cur), op);
                }
            }
        }
        let tv_changed = cur.term != last.term || cur.vote != last.vote;
        let want_sync = !rd.entries().is_empty() || !rd.snapshot().is_empty() || tv_changed;
        if rd.must_sync() != want_sync {
            self.violation(
                "C07",
                "must-sync-wrong",
                format!(
                    "node {}: must_sync() == {} but entries: {}, snapshot: {}, term/vote changed: {} (last handed {:?}, now {:?})",
                    id, rd.must_sync(), rd.entries().len(), !rd.snapshot().is_empty(), tv_changed, last, cur
                ),
                op,
            );
        }
        if let Some(hs) = rd.hs() {
            self.b.nb[ni].last_hs = hs.clone();
        }
    }

    pub fn b_on_light_ready(&mut self, ni: usize, l: &LightReady, nodes: &[Node], op: usize) {
        let ce: Vec<Entry> = l.committed_entries().clone();
        self.handed_out(ni, &ce, "LightReady", nodes, op);
        if let Some(c) = l.commit_index() {
            self.b.nb[ni].last_hs.commit = c;
        }
        // messages generated inside advance (leader only): judged with the pre/post of that call
        if let Some((pre, post)) = self.b.last_advance.take() {
            if !l.messages().is_empty() && (self.on(P13) || self.on(P15) || self.on(P17)) {
                let new: Vec<Message> = l.messages()[pre.msgs_len.min(l.messages().len())..].to_vec();
                self.leader_msgs(ni, &CallKind::AdvanceAppend, &new, &pre, &post, nodes, op);
            }
        }
    }

    // ------------------------------------------------------------------ apply

    pub fn b_on_apply(&mut self, ni: usize, e: &Entry, applied_before: u64, _nodes: &[Node], op: usize) {
        if (self.on(P07) || self.on(P15)) && e.index != applied_before + 1 {
            let prop = if self.on(P07) { "C07" } else { "C15" };
            self.violation(
                prop,
                "apply-gap",
                format!("node {}: the application is about to apply index {} right after {}", ni + 1, e.index, applied_before),
                op,
            );
        }
    }

    pub fn b_after_apply(&mut self, ni: usize, e: &Entry, new_conf: Option<&ConfState>, stale_conf_before: Option<&ConfView>, _app: &AppState, nodes: &[Node], op: usize) {
        let is_cc = e.get_entry_type() != EntryType::EntryNormal;
        if !is_cc {
            return;
        }
        let rn = match nodes[ni].rn.as_ref() {
            Some(r) => r,
            None => return,
        };
        let conf = ConfView::from_cs(&rn.raft.prs().conf().to_conf_state());
        // an entry at or below a snapshot the node's raft has already restored says nothing about the
        // configuration at its index any more; what matters is that it leaves the restored one alone
        if let Some(before) = stale_conf_before {
            if *before != conf && (self.on(P09) || self.on(P15)) {
                let prop = if self.on(P09) { "C09" } else { "C15" };
                self.violation(
                    prop,
                    "stale-entry-altered-restored-configuration",
                    format!(
                        "node {}: applying the membership entry at index {}, which lies below a snapshot its raft had already restored, changed the restored configuration {:?} to {:?}",
                        ni + 1, e.index, before, conf
                    ),
                    op,
                );
            }
            return;
        }
        let _ = new_conf;
        let who = self.b.conf_applied_by.entry(e.index).or_default();
        who.insert(ni);
        if who.len() >= 2 && new_conf.is_some() {
            self.flags |= F_CONF_APPLIED_TWO_NODES;
        }
        match self.b.conf_hist.get(&e.index) {
            None => {
                self.b.conf_hist.insert(e.index, conf);
            }
            Some(want) => {
                if *want != conf && (self.on(P09) || self.on(P15)) {
                    let want = want.clone();
                    let prop = if self.on(P09) { "C09" } else { "C15" };
                    self.violation(
                        prop,
                        "config-differs-at-applied-index",
                        format!(
                            "node {} after applying index {} has configuration {:?} but another node had {:?} at the same index",
                            ni + 1, e.index, conf, want
                        ),
                        op,
                    );
                }
            }
        }
    }

    pub fn b_on_snapshot_installed(&mut self, ni: usize, _s: &Snapshot, _nodes: &[Node], _op: usize) {
        self.b.snap_installed_on.insert(ni);
    }

    // ------------------------------------------------------------------ C08

    pub fn b_on_read_issued(&mut self, ni: usize, ctx: &[u8], nodes: &[Node], _op: usize) {
        let forwarded = nodes[ni].rn.as_ref().map_or(false, |rn| rn.raft.state != StateRole::Leader);
        self.b.reads.insert(ctx.to_vec(), (ni, self.g.maxcommit, self.g.leader_of.len(), forwarded));
    }

    fn on_read_state(&mut self, ni: usize, ctx: &[u8], index: u64, op: usize) {
        let (issuer, maxc, leaders, forwarded) = match self.b.reads.get(ctx) {
            Some(x) => *x,
            None => return,
        };
        self.flags |= F_READ_ANSWERED;
        self.b.reads_answered += 1;
        if forwarded || self.g.leader_of.len() != leaders || self.b.hb_resp_dup || self.b.partition_events > 0 {
            self.flags |= F_READ_ANSWERED_NONTRIVIAL;
        }
        if !self.on(P08) {
            return;
        }
        if issuer != ni {
            self.violation(
                "C08",
                "read-state-on-wrong-node",
                format!("read {:?} was issued on node {} but its read state appeared on node {}", String::from_utf8_lossy(ctx), issuer + 1, ni + 1),
                op,
            );
        }
        if index < maxc {
            self.violation(
                "C08",
                "stale-read-index",
                format!(
                    "read {:?} (issued on node {} when commit index {} had been reached) was answered with index {}",
                    String::from_utf8_lossy(ctx), issuer + 1, maxc, index
                ),
                op,
            );
        }
    }

    pub fn b_after_op(&mut self, _nodes: &[Node], _op: usize) {}

    pub fn b_finish(&mut self, _nodes: &[Node], stats: &mut CaseStats) {
        stats.reads_answered = self.b.reads_answered;
        stats.liveness_rounds = self.b.liveness_rounds;
        stats.handoffs_completed = self.b.handoffs_completed;
        stats.liveness_slow = self.b.liveness_slow as u32;
    }
}
