//! Second half of the monitors: C07 (ready contract), C08 (read index), C09
//! (membership discipline), C13 (flow control), C15 (snapshots), C16 (pre-vote),
//! C17 (transfer). Hooks are `b_*` methods on `Mon`.

use std::collections::HashMap;

use raft::eraftpb::{ConfState, Entry, Message, Snapshot};
use raft::{LightReady, Ready};

use crate::case::{Scenario, NN};
use crate::mon::*;
use crate::obs::*;
use crate::store::AppState;
use crate::world::{CallKind, CaseStats, Node};

#[derive(Default)]
pub struct MonB {
    pub reads: HashMap<Vec<u8>, (usize, u64, usize)>,
    pub trunc_since_ready: Vec<bool>,
}

impl MonB {
    pub fn init(&mut self, _sc: &Scenario) {
        self.trunc_since_ready = vec![false; NN];
    }
    pub fn on_dup(&mut self, _m: &Message) {}
    pub fn on_truncation(&mut self, ni: usize) {
        self.trunc_since_ready[ni] = true;
    }
    pub fn before_propose(&mut self, _ni: usize, _data: &[u8]) {}
    pub fn on_compact(&mut self, _ni: usize, _to: u64) {}
}

impl Mon {
    pub fn b_on_start(&mut self, _ni: usize, _post: &NodeObs, _nodes: &[Node], _first: bool, _op: usize) {}
    pub fn b_on_crash(&mut self, _ni: usize, _nodes: &[Node], _op: usize) {}
    pub fn b_on_new_msg(&mut self, _ni: usize, _m: &Message, _meta: &MsgMeta, _pre: &NodeObs, _op: usize) {}
    pub fn b_before_deliver(&mut self, _ni: usize, _m: &Message, _meta: &MsgMeta, _nodes: &[Node], _op: usize) {}
    pub fn b_after_call(&mut self, _ni: usize, _kind: &CallKind, _pre: &NodeObs, _post: &NodeObs, _nodes: &[Node], _op: usize) {}
    pub fn b_on_release(&mut self, _ni: usize, _m: &Message, _meta: &MsgMeta, _nodes: &[Node], _op: usize) {}
    pub fn b_on_ready(&mut self, _ni: usize, _rd: &Ready, _is_async: bool, _nodes: &[Node], _op: usize) {}
    pub fn b_on_light_ready(&mut self, _ni: usize, _l: &LightReady, _nodes: &[Node], _op: usize) {}
    pub fn b_on_apply(&mut self, _ni: usize, _e: &Entry, _applied_before: u64, _nodes: &[Node], _op: usize) {}
    pub fn b_after_apply(&mut self, _ni: usize, _e: &Entry, _new_conf: Option<&ConfState>, _app: &AppState, _nodes: &[Node], _op: usize) {}
    pub fn b_on_snapshot_installed(&mut self, _ni: usize, _s: &Snapshot, _nodes: &[Node], _op: usize) {}
    pub fn b_on_propose_result(&mut self, _ni: usize, _ok: bool, _op: usize) {}
    pub fn b_on_read_issued(&mut self, _ni: usize, _ctx: &[u8], _nodes: &[Node], _op: usize) {}
    pub fn b_after_op(&mut self, _nodes: &[Node], _op: usize) {}
    pub fn b_finish(&mut self, _nodes: &[Node], _stats: &mut CaseStats) {}
}
