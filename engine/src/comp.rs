//! Driver for the component model-based checks (E2): C11, C12, C14, C18, C19.

use std::cell::RefCell;
use std::collections::HashSet;
use std::panic::{catch_unwind, AssertUnwindSafe};
use std::rc::Rc;
use std::sync::atomic::{AtomicBool, Ordering};
use std::sync::Arc;
use std::time::Instant;

use proptest::prelude::*;
use proptest::test_runner::{Config, RngAlgorithm, RngSeed, TestCaseError, TestError, TestRng, TestRunner};
use serde::Serialize;
use serde_json::json;

use crate::comp_conf::*;
use crate::comp_log::*;
use crate::comp_quorum::*;
use crate::comp_small::*;
use crate::runner::salt;

pub struct CompOut {
    pub evaluations: u64,
    pub nontrivial: u64,
    pub samples: Vec<serde_json::Value>,
    pub failure: Option<(String, serde_json::Value)>,
    pub wall_s: f64,
    pub panics: u64,
}

fn hash_json(v: &serde_json::Value) -> u64 {
    crate::store::mix(0xcbf29ce484222325, v.to_string().as_bytes())
}

/// Generic campaign: `run` returns Ok(nontrivial?) or Err(description).
fn campaign<T, S, M, F>(id: &str, mk: M, cases: u32, seed: u64, workers: usize, run: F) -> CompOut
where
    T: std::fmt::Debug + Serialize + Clone,
    S: Strategy<Value = T>,
    M: Fn() -> S + Send + Sync,
    F: Fn(&T) -> Result<bool, String> + Send + Sync,
{
    crate::world::install_panic_hook();
    let t0 = Instant::now();
    let stop = Arc::new(AtomicBool::new(false));
    let per = (cases as usize + workers - 1) / workers;
    let mut out = CompOut { evaluations: 0, nontrivial: 0, samples: vec![], failure: None, wall_s: 0.0, panics: 0 };
    let mut all_nt: HashSet<u64> = HashSet::new();
    std::thread::scope(|s| {
        let mut hs = vec![];
        for w in 0..workers {
            let stop = stop.clone();
            let mk = &mk;
            let run = &run;
            let wseed = seed ^ salt(id) ^ ((w as u64 + 1).wrapping_mul(0x9e3779b97f4a7c15));
            hs.push(s.spawn(move || {
                let mut seed_bytes = [0u8; 32];
                for (i, b) in seed_bytes.iter_mut().enumerate() {
                    *b = (wseed.rotate_left((i as u32 * 7) % 64) as u8) ^ (i as u8).wrapping_mul(0x9d);
                }
                let cfg = Config { cases: per as u32, failure_persistence: None, max_shrink_iters: 20000, rng_seed: RngSeed::Fixed(wseed), ..Config::default() };
                let mut runner = TestRunner::new_with_rng(cfg, TestRng::from_seed(RngAlgorithm::ChaCha, &seed_bytes));
                let acc = Rc::new(RefCell::new((0u64, HashSet::<u64>::new(), Vec::<serde_json::Value>::new(), false, 0u64)));
                let acc2 = acc.clone();
                let strat = mk();
                let res = runner.run(&strat, move |v| {
                    if stop.load(Ordering::Relaxed) {
                        return Ok(());
                    }
                    crate::world::set_guard(true);
                    let r = catch_unwind(AssertUnwindSafe(|| run(&v)));
                    crate::world::set_guard(false);
                    let mut a = acc2.borrow_mut();
                    let counting = !a.3;
                    if counting {
                        a.0 += 1;
                    }
                    match r {
                        Ok(Ok(nt)) => {
                            if nt && counting {
                                let j = serde_json::to_value(&v).unwrap_or(json!(null));
                                let h = hash_json(&j);
                                if a.1.insert(h) && a.2.len() < 2 {
                                    a.2.push(j);
                                }
                            }
                            Ok(())
                        }
                        Ok(Err(e)) => {
                            a.3 = true;
                            Err(TestCaseError::fail(e))
                        }
                        Err(_) => {
                            a.3 = true;
                            a.4 += 1;
                            let p = crate::world::take_panic_pub();
                            Err(TestCaseError::fail(format!("panic: {:?}", p)))
                        }
                    }
                });
                let fail = match res {
                    Err(TestError::Fail(reason, v)) => Some((reason.to_string(), serde_json::to_value(&v).unwrap_or(json!(null)))),
                    _ => None,
                };
                let a = std::mem::take(&mut *acc.borrow_mut());
                (a, fail)
            }));
        }
        for h in hs {
            let ((n, nt, samples, _, panics), fail) = h.join().expect("worker");
            out.evaluations += n;
            all_nt.extend(nt);
            out.panics += panics;
            for sm in samples {
                if out.samples.len() < 3 {
                    out.samples.push(sm);
                }
            }
            if out.failure.is_none() {
                if let Some(f) = fail {
                    stop.store(true, Ordering::Relaxed);
                    out.failure = Some(f);
                }
            }
        }
    });
    out.nontrivial = all_nt.len() as u64;
    out.wall_s = t0.elapsed().as_secs_f64();
    out
}

pub struct CompSpec {
    pub rule: &'static str,
    pub quick: u32,
    pub thorough: u32,
}

pub fn comp_spec(id: &str) -> Option<CompSpec> {
    Some(match id {
        "C11" => CompSpec {
            rule: "cases: incoming/outgoing halves of 0-9 ids over 12 ids (overlapping, empty), acked-index maps with missing voters/ties/extreme values, partial vote maps, group ids 0-3; non-trivial = joint config whose halves disagree, or >7 voters (heap path), or a tie / missing voter at the quorum position, or the all-grouped group-commit path; distinct = distinct case values",
            quick: 200_000,
            thorough: 20_000_000,
        },
        "C12" => CompSpec {
            rule: "cases: bootstrap config + chain of simple / enter_joint(auto_leave) / leave_joint steps with 0-4 single changes over ids {0..6, 99}; non-trivial = chain containing a joint entry with a demotion (staged learner) or a replace followed by leave_joint, or a rejected change; distinct = distinct case values",
            quick: 150_000,
            thorough: 4_000_000,
        },
        "C14" => CompSpec {
            rule: "cases: op sequences over RaftLog (append, maybe_append with anchors/conflicts relative to offset/persisted/committed, commit_to, stabilize, persistence notices incl. stale ones, restore, applied_to, compaction) with all queries after every op; non-trivial = truncation at/below the unstable offset, or a persistence notice refused by the first-update guard, or restore over a non-empty log, or a slice spanning storage and unstable",
            quick: 150_000,
            thorough: 4_000_000,
        },
        "C18" => CompSpec {
            rule: "cases: capacity 0-8 and op sequences (add increasing, free_to any, free_first_one, reset, set_cap 0-10, maybe_free_buffer) long enough to wrap; non-trivial = >=2 capacity changes on a non-empty window or a grow while the ring is wrapped; distinct = distinct case values",
            quick: 300_000,
            thorough: 20_000_000,
        },
        "C19" => CompSpec {
            rule: "cases: MemStorage mutation sequences within documented preconditions (append incl. overwrite, compact <= commit, apply_snapshot incl. out-of-date, set_hardstate, set_conf_state, commit_to) with all queries after every op; non-trivial = an overwriting append and a compaction, or an out-of-date snapshot, or a size-limited read",
            quick: 120_000,
            thorough: 8_000_000,
        },
        _ => return None,
    })
}

pub fn run_comp(id: &str, cases: u32, seed: u64, workers: usize, long: bool) -> Option<CompOut> {
    let n = if long { 60 } else { 30 };
    Some(match id {
        "C11" => campaign(id, q_strategy, cases, seed, workers, |c: &QCase| {
            let mut st = QStats::default();
            run_quorum(c, &mut st)?;
            Ok(st.joint_disagree || st.heap_path || st.tie_at_quorum || st.missing_at_quorum || st.group_path)
        }),
        "C12" => campaign(id, || c_strategy(if long { 14 } else { 8 }), cases, seed, workers, |c: &CCase| {
            let mut st = CStats::default();
            run_conf(c, &mut st)?;
            Ok(st.joint_with_demotion_then_leave || st.rejected > 0 || st.replaced)
        }),
        "C14" => campaign(id, || log_strategy(n), cases, seed, workers, |c: &LogCase| {
            let mut st = LogStats::default();
            run_log(c, &mut st)?;
            Ok(st.trunc_at_or_below_offset || st.persist_refused_by_guard || st.restore_over_nonempty || st.slice_spanning)
        }),
        "C18" => campaign(id, || inf_strategy(n + 10), cases, seed, workers, |c: &InfCase| {
            let mut st = InfStats::default();
            run_inflights(c, &mut st)?;
            Ok(st.cap_changes_nonempty >= 2 || st.wrapped_grow)
        }),
        "C19" => campaign(id, || ms_strategy(n), cases, seed, workers, |c: &MsCase| {
            let mut st = MsStats::default();
            run_memstorage(c, &mut st)?;
            Ok((st.overwrites > 0 && st.compactions > 0) || st.snapshots_out_of_date > 0 || st.limited_reads > 0)
        }),
        _ => return None,
    })
}

/// Replays a saved component case (JSON value of the case type).
pub fn replay_comp(id: &str, v: &serde_json::Value) -> Result<(), String> {
    fn de<T: serde::de::DeserializeOwned>(v: &serde_json::Value) -> Result<T, String> {
        serde_json::from_value(v.clone()).map_err(|e| format!("cannot decode case: {}", e))
    }
    let _ = de::<serde_json::Value>;
    let r = catch_unwind(AssertUnwindSafe(|| match id {
        "C11" => run_quorum(&de_q(v)?, &mut QStats::default()),
        "C12" => run_conf(&de_c(v)?, &mut CStats::default()),
        "C14" => run_log(&de_l(v)?, &mut LogStats::default()),
        "C18" => run_inflights(&de_i(v)?, &mut InfStats::default()),
        "C19" => run_memstorage(&de_m(v)?, &mut MsStats::default()),
        _ => Err("unknown".into()),
    }));
    match r {
        Ok(x) => x,
        Err(_) => Err(format!("panic: {:?}", crate::world::take_panic_pub())),
    }
}

fn de_q(v: &serde_json::Value) -> Result<QCase, String> {
    serde_json::from_value(v.clone()).map_err(|e| e.to_string())
}
fn de_c(v: &serde_json::Value) -> Result<CCase, String> {
    serde_json::from_value(v.clone()).map_err(|e| e.to_string())
}
fn de_l(v: &serde_json::Value) -> Result<LogCase, String> {
    serde_json::from_value(v.clone()).map_err(|e| e.to_string())
}
fn de_i(v: &serde_json::Value) -> Result<InfCase, String> {
    serde_json::from_value(v.clone()).map_err(|e| e.to_string())
}
fn de_m(v: &serde_json::Value) -> Result<MsCase, String> {
    serde_json::from_value(v.clone()).map_err(|e| e.to_string())
}

/// Decodes a libFuzzer artifact of `fz_comp` the way the target does and re-runs it.
/// Returns the case and the mismatch, if any.
pub fn rejudge_fuzz_bytes(id: &str, data: &[u8]) -> Option<(serde_json::Value, String)> {
    use crate::comp_bytes::*;
    let (v, r) = match id {
        "C11" => {
            let c = q_case(data);
            (serde_json::to_value(&c).ok()?, run_quorum(&c, &mut QStats::default()))
        }
        "C12" => {
            let c = c_case(data);
            (serde_json::to_value(&c).ok()?, run_conf(&c, &mut CStats::default()))
        }
        "C14" => {
            let c = log_case(data);
            (serde_json::to_value(&c).ok()?, run_log(&c, &mut LogStats::default()))
        }
        "C19" => {
            let c = ms_case(data);
            (serde_json::to_value(&c).ok()?, run_memstorage(&c, &mut MsStats::default()))
        }
        _ => {
            let c = inf_case(data);
            (serde_json::to_value(&c).ok()?, run_inflights(&c, &mut InfStats::default()))
        }
    };
    r.err().map(|e| (v, e))
}
