//! Byte decoders for the component cases (used by the libFuzzer target `fz_comp`): every loop is
//! bounded by the remaining input, an exhausted input yields zeros.

use std::collections::{BTreeMap, BTreeSet};

use crate::comp_conf::{CCase, Kind, Step};
use crate::comp_log::{LogCase, LogOp};
use crate::comp_quorum::QCase;
use crate::comp_small::{InfCase, InfOp, MsCase, MsOp};

pub struct Cur<'a> {
    d: &'a [u8],
    i: usize,
}

impl<'a> Cur<'a> {
    pub fn new(d: &'a [u8]) -> Cur<'a> {
        Cur { d, i: 0 }
    }
    pub fn b(&mut self) -> u8 {
        let v = self.d.get(self.i).copied().unwrap_or(0);
        self.i += 1;
        v
    }
    pub fn left(&self) -> usize {
        self.d.len().saturating_sub(self.i)
    }
    pub fn below(&mut self, n: u8) -> u8 {
        if n == 0 {
            0
        } else {
            self.b() % n
        }
    }
    pub fn flag(&mut self) -> bool {
        self.b() & 1 == 1
    }
}

pub fn inf_case(d: &[u8]) -> InfCase {
    let mut c = Cur::new(d);
    let cap = c.below(9);
    let mut ops = vec![];
    while c.left() >= 2 && ops.len() < 96 {
        ops.push(match c.below(15) {
            0..=5 => InfOp::Add(1 + c.below(3)),
            6..=8 => InfOp::FreeTo(c.below(12)),
            9..=10 => InfOp::FreeFirst,
            11 => InfOp::Reset,
            12..=13 => InfOp::SetCap(c.below(11)),
            _ => InfOp::MaybeFree,
        });
    }
    InfCase { cap, ops }
}

pub fn ms_case(d: &[u8]) -> MsCase {
    let mut c = Cur::new(d);
    let nq = 1 + c.below(5) as usize;
    let mut queries = vec![];
    for _ in 0..nq {
        queries.push((c.b(), c.b(), c.b()));
    }
    let mut ops = vec![];
    while c.left() >= 3 && ops.len() < 80 {
        ops.push(match c.below(15) {
            14 => MsOp::LogUnavailable { on: c.flag() },
            0..=5 => MsOp::Append { back: c.below(4), len: 1 + c.below(4), term_bump: c.below(2), size: c.below(40) },
            6..=7 => MsOp::Compact { back: c.below(4) },
            8..=9 => MsOp::ApplySnapshot { delta: (c.below(8) as i8) - 2, term_bump: c.below(2) },
            10..=11 => MsOp::SetCommit { back: c.below(4) },
            12 => MsOp::SetConf { v: c.below(8) },
            _ => MsOp::CommitTo { back: c.below(4) },
        });
    }
    MsCase { ops, queries }
}

fn id_set(c: &mut Cur, max: usize) -> BTreeSet<u64> {
    let n = c.below(max as u8 + 1) as usize;
    let mut s = BTreeSet::new();
    for _ in 0..n {
        s.insert(1 + c.below(12) as u64);
    }
    s
}

pub fn q_case(d: &[u8]) -> QCase {
    let mut c = Cur::new(d);
    let incoming = id_set(&mut c, 9);
    let outgoing = if c.below(5) < 3 { BTreeSet::new() } else { id_set(&mut c, 9) };
    let mut acked = BTreeMap::new();
    let na = c.below(13);
    let all_grouped = c.flag();
    for _ in 0..na {
        let id = 1 + c.below(12) as u64;
        let idx = match c.below(9) {
            0 => 0,
            1 => u64::MAX - 1,
            2 => 1000 + c.below(3) as u64,
            _ => c.below(12) as u64,
        };
        let mut g = if c.below(5) < 2 { 0 } else { 1 + c.below(3) as u64 };
        if all_grouped && g == 0 {
            g = 1 + idx % 3;
        }
        acked.insert(id, (idx, g));
    }
    let mut votes = BTreeMap::new();
    let nv = c.below(13);
    for _ in 0..nv {
        votes.insert(1 + c.below(12) as u64, c.flag());
    }
    QCase { incoming, outgoing, acked, votes, group_commit: c.flag() }
}

pub fn c_case(d: &[u8]) -> CCase {
    let mut c = Cur::new(d);
    let mut boot_voters = BTreeSet::new();
    for _ in 0..1 + c.below(4) {
        boot_voters.insert(1 + c.below(6) as u64);
    }
    let mut boot_learners = BTreeSet::new();
    for _ in 0..c.below(3) {
        let id = 1 + c.below(6) as u64;
        if !boot_voters.contains(&id) {
            boot_learners.insert(id);
        }
    }
    let mut steps = vec![];
    while c.left() >= 2 && steps.len() < 16 {
        let kind = match c.below(9) {
            0..=3 => Kind::Simple,
            4..=5 => Kind::EnterJoint(c.flag()),
            _ => Kind::LeaveJoint,
        };
        let n = c.below(5);
        let mut changes = vec![];
        for _ in 0..n {
            let id = match c.below(14) {
                12 => 0,
                13 => 99,
                k => 1 + (k % 6) as u64,
            };
            changes.push((c.below(3), id));
        }
        steps.push(Step { kind, changes });
    }
    if steps.is_empty() {
        steps.push(Step { kind: Kind::Simple, changes: vec![] });
    }
    CCase { boot_voters, boot_learners, steps }
}

pub fn log_case(d: &[u8]) -> LogCase {
    let mut c = Cur::new(d);
    let np = 2 + c.below(4) as usize;
    let mut probes = vec![];
    for _ in 0..np {
        probes.push((c.b(), c.b(), c.b()));
    }
    let mut ops = vec![];
    while c.left() >= 3 && ops.len() < 80 {
        ops.push(match c.below(30) {
            0..=4 => LogOp::Append { n: 1 + c.below(3), bump: c.below(2), size: c.below(30) },
            5..=10 => LogOp::MaybeAppend { prev_back: c.below(6), agree: c.below(4), extra: c.below(4), commit_fwd: c.below(6), wrong_term: c.below(7) == 0, size: c.below(30) },
            11..=13 => LogOp::CommitTo { fwd: c.below(5) },
            14..=18 => LogOp::Stabilize,
            19..=22 => LogOp::MaybePersist { back: c.below(5), stale_term: c.below(3) == 0 },
            23 => LogOp::Restore { fwd: c.below(5), bump: c.below(2) },
            24..=26 => LogOp::AppliedTo { fwd: c.below(5) },
            27..=28 => LogOp::Compact { back: c.below(4) },
            _ => LogOp::SetApplyLimit { l: c.below(3) },
        });
    }
    LogCase { ops, probes }
}
