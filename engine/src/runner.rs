//! Drives the simulator checks: proptest generation + shrinking, worker threads,
//! judging, replay files, evidence.

use std::cell::RefCell;
use std::collections::{BTreeMap, HashSet};
use std::rc::Rc;
use std::sync::atomic::{AtomicBool, Ordering};
use std::sync::Arc;
use std::time::Instant;

use proptest::collection::vec;
use proptest::prelude::*;
use proptest::test_runner::{Config, RngAlgorithm, RngSeed, TestCaseError, TestError, TestRng, TestRunner};
use serde_json::json;

use crate::case::*;
use crate::findings::{self, Known};
use crate::mon::{Mon, Violation};
use crate::profiles::Spec;
use crate::world::{CaseStats, PanicInfo, RunOutcome, World};

pub const AC_ASSUMPTIONS: &[&str] = &[
    "AC1: between ready() and the matching advance* only apply_conf_change and storage writes happen on that node; advance_apply* only after advance_append*",
    "AC2: Ready::messages()/LightReady::messages() leave at once; persisted_messages() of Ready k leave only when snapshot, entries and hard state of all Readies <= k are durable",
    "AC3: writes go snapshot -> entries -> hard state and are readable through Storage before advance*",
    "AC4: advance/advance_append only when the Ready is durable; on_persist_ready(n) only when Readies <= n are durable, n monotone, in the same atomic step as fsync and release of persisted messages",
    "AC5: committed entries applied in order, once per incarnation; apply_conf_change called for every conf-change entry; Err means rejected, state untouched",
    "AC6: when must_sync() is false the commit-only hard state may reach disk late; term/vote changes always synced",
    "AC7: applied index, state digest and ConfState durable atomically per applied entry, durable commit index raised first; restart = RawNode::new with Config.applied = durable applied index",
    "AC8: compaction only at indexes <= applied; snapshots taken at the applied index",
    "AC9: report_snapshot eventually called for each MsgSnapshot (generated: Finish/Failure/late)",
    "AC10: read-index contexts unique; node ids never reused with a wiped disk",
    "AC11: only messages produced by simulated peers are stepped, each only at its addressee",
    "AC12: campaign() only on a voter of its own configuration",
    "AC13: Config passes validate(); pre_vote/check_quorum/read_only_option cluster-wide",
    "AC14: membership proposals name ids 1..=6, plus 0 and 99 at low weight in safety profiles",
    "AC15: a Storage may answer an async-capable read with LogTemporarilyUnavailable; the recorded context is later handed to on_entries_fetched on the same incarnation",
    "SimStore (the simulated application's Storage implementation) and the simulator itself are trusted",
];

#[derive(Clone, Debug)]
pub enum Verdict {
    Pass,
    DiscardPanic(String),
    Known(String),
    Fail(Violation, String),
}

pub fn panic_signature(p: &PanicInfo) -> String {
    let file = p.file.strip_prefix("/repo/").unwrap_or(&p.file).to_string();
    let mut src = String::new();
    if let Ok(text) = std::fs::read_to_string(format!("/repo/{}", file)) {
        let lines: Vec<&str> = text.lines().collect();
        let ln = (p.line as usize).saturating_sub(1);
        if ln < lines.len() {
            // a statement may span lines: walk back to the line that starts it
            let mut start = ln;
            while start > 0 && ln - start < 4 {
                let prev = lines[start - 1].trim();
                if prev.ends_with(';') || prev.ends_with('{') || prev.ends_with('}') || prev.is_empty() || prev.starts_with("//") {
                    break;
                }
                start -= 1;
            }
            // a macro call opened on this line: include its arguments
            let mut end = ln;
            while end + 1 < lines.len() && end - ln < 3 && !lines[end].trim_end().ends_with(';') && !lines[end].trim_end().ends_with(')') {
                end += 1;
            }
            src = lines[start..=end].iter().map(|l| l.trim()).collect::<Vec<_>>().join(" ");
        }
    }
    if src.is_empty() {
        src = p.msg.chars().take(60).collect();
    }
    format!("panic:{}:{}", file, src)
}

pub fn judge(spec_id: &str, monitors_c20: bool, out: &RunOutcome, known: &[Known]) -> Verdict {
    if let Some((p, ctx)) = &out.panic {
        let sig = panic_signature(p);
        if monitors_c20 {
            if known.iter().any(|k| k.property == "C20" && k.signature == sig) {
                return Verdict::Known(sig);
            }
            let v = Violation {
                property: "C20".into(),
                monitor: "panic".into(),
                detail: format!("panic at {}:{} \"{}\" during {}", p.file, p.line, p.msg.chars().take(200).collect::<String>(), ctx),
                op_index: out.stats.ops as usize,
            };
            return Verdict::Fail(v, sig);
        }
        // a panic belongs to C20; other checks first look at their own monitors
        if out.violations.is_empty() {
            // (VERIF_STRICT_PANIC=1: used while building to capture and shrink a panic met under another profile)
            if std::env::var("VERIF_STRICT_PANIC").map_or(false, |v| v == "1") && !known.iter().any(|k| k.signature == sig) {
                let v = Violation {
                    property: "C20".into(),
                    monitor: "panic".into(),
                    detail: format!("panic at {}:{} \"{}\" during {}", p.file, p.line, p.msg.chars().take(200).collect::<String>(), ctx),
                    op_index: out.stats.ops as usize,
                };
                return Verdict::Fail(v, sig);
            }
            return Verdict::DiscardPanic(sig);
        }
    }
    for v in &out.violations {
        let sig = format!("{}/{}", v.property, v.monitor);
        if known.iter().any(|k| k.signature == sig) {
            continue;
        }
        let _ = spec_id;
        return Verdict::Fail(v.clone(), sig);
    }
    if let Some(v) = out.violations.first() {
        return Verdict::Known(format!("{}/{}", v.property, v.monitor));
    }
    Verdict::Pass
}

pub struct Acc {
    pub evaluations: u64,
    pub nontrivial: HashSet<u64>,
    pub discarded_panics: u64,
    pub discard_sigs: BTreeMap<String, u64>,
    pub known_hits: BTreeMap<String, u64>,
    pub sums: BTreeMap<&'static str, u64>,
    pub flag_counts: Vec<u64>,
    pub samples: Vec<serde_json::Value>,
    pub failed: bool,
    pub kind_hist: [u64; NKINDS],
    pub kind_noop: [u64; NKINDS],
    /// raw bytes of a few non-trivial cases (seed corpus for the fuzz stage)
    pub seed_inputs: Vec<Vec<u8>>,
}

impl Default for Acc {
    fn default() -> Acc {
        Acc {
            evaluations: 0,
            nontrivial: HashSet::new(),
            discarded_panics: 0,
            discard_sigs: BTreeMap::new(),
            known_hits: BTreeMap::new(),
            sums: BTreeMap::new(),
            flag_counts: vec![0; 64],
            samples: vec![],
            failed: false,
            kind_hist: [0; NKINDS],
            kind_noop: [0; NKINDS],
            seed_inputs: vec![],
        }
    }
}

fn add_stats(a: &mut Acc, s: &CaseStats) {
    let mut add = |k: &'static str, v: u64| *a.sums.entry(k).or_insert(0) += v;
    add("ops", s.ops as u64);
    add("noops", s.noops as u64);
    add("inapplicable_ops_turned_into_progress", s.fallbacks as u64);
    add("lib_calls", s.lib_calls as u64);
    add("delivered", s.delivered as u64);
    add("dropped", s.dropped as u64);
    add("crashes", s.crashes as u64);
    add("crashes_lost_data", s.crashes_lost_data as u64);
    add("async_fetches_completed", s.fetches_completed as u64);
    add("async_fetches_that_sent_appends", s.fetches_sent as u64);
    add("restarts", s.restarts as u64);
    add("proposals_ok", s.proposals_ok as u64);
    add("proposals_dropped", s.proposals_dropped as u64);
    add("conf_proposed", s.conf_proposed as u64);
    add("conf_applied", s.conf_applied as u64);
    add("conf_rejected_by_app", s.conf_rejected_by_app as u64);
    add("snapshots_installed", s.snapshots_installed as u64);
    add("snapshots_sent", s.snapshots_sent as u64);
    add("compactions", s.compactions as u64);
    add("sum_max_term", s.max_term);
    add("sum_max_commit", s.max_commit);
    add("leaders_seen", s.leaders_seen as u64);
    add("reads_issued", s.reads_issued as u64);
    add("reads_answered", s.reads_answered as u64);
    add("transfers", s.transfers as u64);
    add("joint_entered", s.joint_entered as u64);
    add("excluded_by_known_finding_f3", s.excluded_f3 as u64);
    add("excluded_by_known_finding_f11", s.excluded_f11 as u64);
    add("excluded_by_known_finding_f1", s.excluded_f1 as u64);
    add("excluded_other", s.excluded_other as u64);
    add("async_batches", s.async_batches as u64);
    add("net_overflow", s.net_overflow as u64);
    add("liveness_rounds_to_converge", s.liveness_rounds as u64);
    add("handoffs_completed", s.handoffs_completed as u64);
    add("structured_scenario_cases", s.mode1 as u64);
    add("liveness_converged_after_bound", s.liveness_slow as u64);
}

fn hash_raw(raw: &RawCase) -> u64 {
    crate::store::mix(0xcbf29ce484222325, &raw.to_bytes())
}

pub fn raw_strategy(lo: usize, hi: usize) -> impl Strategy<Value = (Vec<u8>, Vec<Vec<u8>>)> {
    (vec(any::<u8>(), RAW_SCEN), vec(vec(any::<u8>(), RAW_OP), lo..hi))
}

pub fn to_raw(v: &(Vec<u8>, Vec<Vec<u8>>)) -> RawCase {
    let mut scen = [0u8; RAW_SCEN];
    scen.copy_from_slice(&v.0);
    let ops = v
        .1
        .iter()
        .map(|o| {
            let mut a = [0u8; RAW_OP];
            a.copy_from_slice(o);
            a
        })
        .collect();
    RawCase { scen, ops }
}

pub struct Failure {
    pub case: Case,
    pub raw: RawCase,
    pub violation: Violation,
    pub sig: String,
}

pub struct CampaignResult {
    pub acc: Acc,
    pub failure: Option<Failure>,
}

/// What one case evaluation does (simulator run + property-specific extras).
pub type Evaluator = dyn Fn(&Case, bool) -> RunOutcome + Send + Sync;

pub fn default_eval(spec: &Spec) -> Box<Evaluator> {
    let monitors = spec.monitors;
    let options = spec.options;
    if spec.id == "C16" {
        return Box::new(move |case: &Case, trace: bool| {
            if case.scenario.mode == 1 {
                World::run_lockstep(case, Mon::new(monitors), options, trace)
            } else {
                World::run(case, Mon::new(monitors), options, trace)
            }
        });
    }
    if spec.id == "C17" {
        return Box::new(move |case: &Case, trace: bool| {
            if case.scenario.mode == 1 {
                World::run_handoff(case, Mon::new(monitors), options, trace)
            } else {
                World::run(case, Mon::new(monitors), options, trace)
            }
        });
    }
    if spec.id == "C10" {
        return Box::new(move |case: &Case, trace: bool| World::run_liveness(case, Mon::new(monitors), options, trace));
    }
    Box::new(move |case: &Case, trace: bool| World::run(case, Mon::new(monitors), options, trace))
}

pub fn run_worker(
    spec: &Spec,
    eval: &Evaluator,
    known: &[Known],
    cases: u32,
    ops: (usize, usize),
    seed: u64,
    stop: Arc<AtomicBool>,
) -> CampaignResult {
    let acc = Rc::new(RefCell::new(Acc::default()));
    let mut seed_bytes = [0u8; 32];
    for (i, b) in seed_bytes.iter_mut().enumerate() {
        *b = (seed.rotate_left((i as u32 * 7) % 64) as u8) ^ (i as u8).wrapping_mul(0x9d);
    }
    let cfg = Config {
        cases,
        failure_persistence: None,
        max_shrink_iters: 4000,
        rng_seed: RngSeed::Fixed(seed),
        rng_algorithm: RngAlgorithm::ChaCha,
        ..Config::default()
    };
    let rng = TestRng::from_seed(RngAlgorithm::ChaCha, &seed_bytes);
    let mut runner = TestRunner::new_with_rng(cfg, rng);
    let strat = raw_strategy(ops.0, ops.1);
    let acc2 = acc.clone();
    let is_c20 = spec.monitors & crate::mon::P20 != 0;
    let res = runner.run(&strat, |v| {
        if stop.load(Ordering::Relaxed) {
            return Ok(());
        }
        let raw = to_raw(&v);
        let case = spec.profile.decode(&raw);
        let out = eval(&case, false);
        let verdict = judge(spec.id, is_c20, &out, known);
        let mut a = acc2.borrow_mut();
        let counting = !a.failed;
        if counting {
            a.evaluations += 1;
            add_stats(&mut a, &out.stats);
            for b in 0..64 {
                if out.flags >> b & 1 == 1 {
                    a.flag_counts[b] += 1;
                }
            }
            for op in &case.ops {
                a.kind_hist[op.kind()] += 1;
            }
            for k in 0..NKINDS {
                a.kind_noop[k] += out.stats.noop_by_kind[k] as u64;
            }
        }
        match verdict {
            Verdict::Pass | Verdict::Known(_) => {
                if let Verdict::Known(sig) = &verdict {
                    if counting {
                        *a.known_hits.entry(sig.clone()).or_insert(0) += 1;
                    }
                }
                if counting && (spec.nontrivial)(&out.stats, out.flags) {
                    let h = hash_raw(&raw);
                    let fresh = a.nontrivial.insert(h);
                    if fresh && a.seed_inputs.len() < 6 {
                        a.seed_inputs.push(raw.to_bytes());
                    }
                    if fresh && a.samples.len() < 2 {
                        let mut c = case.clone();
                        let total = c.ops.len();
                        if a.samples.len() == 1 {
                            c.ops.truncate(40);
                        }
                        a.samples.push(json!({"case": c, "ops_total": total, "stats": out.stats}));
                    }
                }
                Ok(())
            }
            Verdict::DiscardPanic(sig) => {
                if counting {
                    a.discarded_panics += 1;
                    *a.discard_sigs.entry(sig).or_insert(0) += 1;
                }
                Ok(())
            }
            Verdict::Fail(v, _sig) => {
                a.failed = true;
                Err(TestCaseError::fail(format!("{}/{}: {}", v.property, v.monitor, v.detail)))
            }
        }
    });
    let mut failure = None;
    if let Err(TestError::Fail(_, v)) = res {
        stop.store(true, Ordering::Relaxed);
        let raw = to_raw(&v);
        let case = spec.profile.decode(&raw);
        let out = eval(&case, false);
        if let Verdict::Fail(violation, sig) = judge(spec.id, is_c20, &out, known) {
            let (case, violation) = ddmin(spec.id, is_c20, eval, known, case, violation, &sig);
            failure = Some(Failure { case, raw, violation, sig });
        }
    }
    let acc = std::mem::take(&mut *acc.borrow_mut());
    CampaignResult { acc, failure }
}

/// Delta-debugging over the decoded op list: drop ops (chunks, then singles)
/// while the same signature keeps failing.
pub fn ddmin(
    id: &str,
    is_c20: bool,
    eval: &Evaluator,
    known: &[Known],
    mut case: Case,
    mut violation: Violation,
    sig: &str,
) -> (Case, Violation) {
    let mut budget = 3000usize;
    let mut chunk = (case.ops.len() / 2).max(1);
    loop {
        let mut i = 0;
        let mut removed_any = false;
        while i < case.ops.len() && budget > 0 {
            let end = (i + chunk).min(case.ops.len());
            let mut cand = case.clone();
            cand.ops.drain(i..end);
            budget -= 1;
            let out = eval(&cand, false);
            match judge(id, is_c20, &out, known) {
                Verdict::Fail(v, s) if s == sig => {
                    case = cand;
                    violation = v;
                    removed_any = true;
                }
                _ => i = end,
            }
        }
        if budget == 0 {
            break;
        }
        if chunk == 1 {
            if !removed_any {
                break;
            }
        } else {
            chunk = (chunk / 2).max(1);
        }
    }
    // try dropping the warm-up
    if case.scenario.warm && budget > 0 {
        let mut cand = case.clone();
        cand.scenario.warm = false;
        let out = eval(&cand, false);
        if let Verdict::Fail(v, s) = judge(id, is_c20, &out, known) {
            if s == sig {
                case = cand;
                violation = v;
            }
        }
    }
    (case, violation)
}

pub fn merge(into: &mut Acc, from: Acc) {
    into.evaluations += from.evaluations;
    into.nontrivial.extend(from.nontrivial);
    into.discarded_panics += from.discarded_panics;
    for (k, v) in from.discard_sigs {
        *into.discard_sigs.entry(k).or_insert(0) += v;
    }
    for (k, v) in from.known_hits {
        *into.known_hits.entry(k).or_insert(0) += v;
    }
    for (k, v) in from.sums {
        *into.sums.entry(k).or_insert(0) += v;
    }
    for i in 0..64 {
        into.flag_counts[i] += from.flag_counts[i];
    }
    for i in 0..NKINDS {
        into.kind_hist[i] += from.kind_hist[i];
        into.kind_noop[i] += from.kind_noop[i];
    }
    for s in from.samples {
        if into.samples.len() < 3 {
            into.samples.push(s);
        }
    }
    into.seed_inputs.extend(from.seed_inputs);
}

pub fn salt(id: &str) -> u64 {
    crate::store::mix(0x1234_5678_9abc_def0, id.as_bytes())
}

pub struct CampaignOut {
    pub acc: Acc,
    pub failure: Option<Failure>,
    pub wall_s: f64,
}

pub fn run_campaign(
    spec: &Spec,
    eval: Arc<Box<Evaluator>>,
    known: &[Known],
    total_cases: u32,
    ops: (usize, usize),
    seed: u64,
    workers: usize,
) -> CampaignOut {
    let t0 = Instant::now();
    let stop = Arc::new(AtomicBool::new(false));
    let per = (total_cases as usize + workers - 1) / workers;
    let mut acc = Acc::default();
    let mut failure: Option<Failure> = None;
    std::thread::scope(|s| {
        let mut hs = vec![];
        for w in 0..workers {
            let stop = stop.clone();
            let eval = eval.clone();
            let wseed = seed ^ salt(spec.id) ^ ((w as u64 + 1).wrapping_mul(0x9e3779b97f4a7c15));
            let known = known.to_vec();
            hs.push(s.spawn(move || run_worker(spec, &**eval, &known, per as u32, ops, wseed, stop)));
        }
        for h in hs {
            let r = h.join().expect("worker thread panicked");
            merge(&mut acc, r.acc);
            if failure.is_none() {
                failure = r.failure;
            }
        }
    });
    CampaignOut { acc, failure, wall_s: t0.elapsed().as_secs_f64() }
}

pub fn flag_names() -> Vec<(u32, &'static str)> {
    vec![
        (0, "leader_change_after_commit"), (1, "truncation"), (2, "crash_lost_unfsynced"), (3, "snapshot_installed"),
        (4, "conf_change_applied"), (5, "two_nodes_3_commits"), (6, "two_leaders"), (7, "crash_with_unsynced_vote"),
        (8, "vote_dup_or_late"), (9, "leader_with_divergent_peer"), (10, "vote_decided_logs_differ"),
        (11, "commit_leader_disk_behind"), (12, "commit_voter_volatile_only"), (13, "commit_under_joint"),
        (14, "leader_crash_unpersisted"), (15, "split_append"), (16, "promise_pending_lost"), (17, "release_while_disk_lags"),
        (18, "multi_outstanding_ready"), (19, "snapshot_ready"), (20, "pagination"), (21, "restart_mid_batch"),
        (22, "three_readies"), (23, "read_answered_nontrivial"), (24, "conf_while_pending"), (25, "conf_applied_two_nodes"),
        (26, "joint_restored"), (27, "window_full"), (28, "cap_change_nonempty"), (29, "reject_moved_next"),
        (30, "refused_for_size"), (31, "snap_then_append"), (32, "snap_ignored_or_ff"), (33, "prevote_nontrivial"),
        (34, "transfer_nontrivial"), (35, "crash_or_conf_and_30"), (36, "liveness_nontrivial"), (37, "trunc_between_readies"),
        (38, "read_answered"), (39, "step_rejected"),
    ]
}

pub fn evidence_json(
    id: &str,
    tier: &str,
    seed: u64,
    rule: &str,
    acc: &Acc,
    wall_s: f64,
    violations: u64,
    extra: serde_json::Value,
) -> serde_json::Value {
    let mut hist = serde_json::Map::new();
    for (k, v) in &acc.sums {
        hist.insert(k.to_string(), json!(v));
    }
    let mut fl = serde_json::Map::new();
    for (b, n) in flag_names() {
        if acc.flag_counts[b as usize] > 0 {
            fl.insert(n.to_string(), json!(acc.flag_counts[b as usize]));
        }
    }
    let mut kinds = serde_json::Map::new();
    for k in 0..NKINDS {
        if acc.kind_hist[k] > 0 {
            kinds.insert(KIND_NAMES[k].to_string(), json!({"generated": acc.kind_hist[k], "noop": acc.kind_noop[k]}));
        }
    }
    let ops = acc.sums.get("ops").copied().unwrap_or(0);
    let noops = acc.sums.get("noops").copied().unwrap_or(0);
    let samples = if acc.samples.is_empty() { vec![json!("no non-trivial case in this run")] } else { acc.samples.clone() };
    json!({
        "property_id": id,
        "tier": tier,
        "seed": seed,
        "level": "exploration",
        "coverage": {
            "evaluations": acc.evaluations,
            "distinct_nontrivial": acc.nontrivial.len(),
            "rule": rule,
            "samples": samples,
            "histogram_sums_over_cases": hist,
            "cases_with_flag": fl,
            "generated_op_kinds": kinds,
            "noop_fraction": if ops > 0 { noops as f64 / ops as f64 } else { 0.0 },
            "discarded_panics": acc.discarded_panics,
            "discarded_panic_signatures": acc.discard_sigs,
            "known_finding_hits": acc.known_hits,
            "extra": extra,
        },
        "assumptions": AC_ASSUMPTIONS,
        "wall_s": wall_s,
        "violations": violations,
    })
}

pub fn write_replay(dir: &str, id: &str, tier: &str, seed: u64, f: &Failure, profile: &str, options: u32) -> String {
    let _ = std::fs::create_dir_all(dir);
    let h = hash_raw(&f.raw);
    let path = format!("{}/{}-{:016x}.json", dir, id, h);
    let hex: String = f.raw.to_bytes().iter().map(|b| format!("{:02x}", b)).collect();
    let j = json!({
        "property": id,
        "tier": tier,
        "seed": seed,
        "profile": profile,
        "options": options,
        "signature": f.sig,
        "violation": f.violation,
        "case": f.case,
        "raw_hex": hex,
    });
    let _ = std::fs::write(&path, serde_json::to_string_pretty(&j).unwrap());
    path
}

pub fn load_replay(path: &str) -> Result<(Case, serde_json::Value), String> {
    let text = std::fs::read_to_string(path).map_err(|e| format!("{}: {}", path, e))?;
    let v: serde_json::Value = serde_json::from_str(&text).map_err(|e| format!("{}: {}", path, e))?;
    let case: Case = serde_json::from_value(v["case"].clone()).map_err(|e| format!("{}: case: {}", path, e))?;
    Ok((case, v))
}

pub fn known_for(id: &str) -> Vec<Known> {
    findings::load().into_iter().filter(|k| k.property == id || id == "*").collect()
}

// ---------------------------------------------------------------------------- fuzz stage (thorough tier)

pub struct FuzzOut {
    pub ran: bool,
    pub runs: u64,
    pub artifacts: Vec<std::path::PathBuf>,
    pub wall_s: f64,
    pub note: String,
}

/// Runs a libFuzzer target (built by `cargo +nightly fuzz build --fuzz-dir /verif/fuzz`) with a fixed
/// number of runs. The target itself carries the oracle; an artifact is a candidate violation
/// that the caller re-judges with the plain interpreter.
pub fn fuzz_stage(target: &str, prop: &str, runs_total: u64, seed: u64, seeds: &[Vec<u8>], max_len: usize, jobs: usize) -> FuzzOut {
    let bin = format!("/verif/fuzz/target/x86_64-unknown-linux-gnu/release/{}", target);
    let t0 = Instant::now();
    if !std::path::Path::new(&bin).exists() {
        return FuzzOut { ran: false, runs: 0, artifacts: vec![], wall_s: 0.0, note: format!("{} not built", bin) };
    }
    let dir = format!("/verif/work/fuzz/{}-{}", prop, target);
    let _ = std::fs::remove_dir_all(&dir);
    let corpus = format!("{}/corpus", dir);
    let arts = format!("{}/artifacts/", dir);
    let _ = std::fs::create_dir_all(&corpus);
    let _ = std::fs::create_dir_all(&arts);
    for (i, s) in seeds.iter().enumerate() {
        let _ = std::fs::write(format!("{}/seed-{:03}", corpus, i), s);
    }
    let per = (runs_total / jobs as u64).max(1);
    let out = std::process::Command::new(&bin)
        .current_dir(&dir)
        .env("VERIF_FUZZ_PROP", prop)
        .arg(format!("-runs={}", per))
        .arg(format!("-seed={}", (seed % 0xffff_fff0) + 1))
        .arg("-len_control=0")
        .arg(format!("-max_len={}", max_len))
        .arg(format!("-jobs={}", jobs))
        .arg(format!("-workers={}", jobs))
        .arg(format!("-artifact_prefix={}", arts))
        .arg("-print_final_stats=0")
        .arg("-timeout=60")
        .arg("-rss_limit_mb=4096")
        .arg(&corpus)
        .output();
    let mut runs = 0u64;
    if let Ok(rd) = std::fs::read_dir(&dir) {
        for e in rd.filter_map(|e| e.ok()) {
            let p = e.path();
            if p.file_name().map_or(false, |n| n.to_string_lossy().starts_with("fuzz-") && n.to_string_lossy().ends_with(".log")) {
                if let Ok(t) = std::fs::read_to_string(&p) {
                    for l in t.lines() {
                        if let Some(rest) = l.strip_prefix("Done ") {
                            if let Some(n) = rest.split_whitespace().next().and_then(|x| x.parse::<u64>().ok()) {
                                runs += n;
                            }
                        }
                    }
                }
            }
        }
    }
    let mut artifacts = vec![];
    if let Ok(rd) = std::fs::read_dir(&arts) {
        for e in rd.filter_map(|e| e.ok()) {
            artifacts.push(e.path());
        }
    }
    artifacts.sort();
    let note = match out {
        Ok(o) => format!("exit {:?}", o.status.code()),
        Err(e) => format!("spawn failed: {}", e),
    };
    FuzzOut { ran: true, runs, artifacts, wall_s: t0.elapsed().as_secs_f64(), note }
}
