//! Per-property specifications for the simulator checks: generation profile,
//! monitor set, options and the non-triviality rule.

use crate::case::{Profile, NKINDS};
use crate::mon::*;
use crate::world::CaseStats;

pub struct Spec {
    pub id: &'static str,
    pub profile: Profile,
    pub monitors: u32,
    pub options: u32,
    pub rule: &'static str,
    pub nontrivial: fn(&CaseStats, u64) -> bool,
    pub quick_cases: u32,
    pub thorough_cases: u32,
    pub ops_quick: (usize, usize),
    pub ops_thorough: (usize, usize),
    /// options for a second, small campaign that re-enables triggers excluded because of known findings
    pub repro_options: Option<u32>,
}

//                         Tick TUT Del Drop Dup Settle Part Heal Prop PConf Read Xfer Camp RSnap RUnr ReqS Ready Fsync Apply Crash Rest Comp Knob SnapU DelTo Ping
const W_SAFETY: [u16; NKINDS] = [8, 6, 26, 4, 3, 5, 3, 2, 16, 3, 4, 1, 1, 2, 1, 3, 26, 8, 6, 3, 6, 3, 1, 1, 6, 1, 14, 0, 1, 1];
const W_ELECTION: [u16; NKINDS] = [10, 10, 26, 4, 6, 3, 3, 2, 10, 3, 0, 2, 3, 1, 1, 0, 26, 8, 5, 5, 7, 1, 1, 0, 6, 0, 14, 0, 0, 0];
const W_DURABILITY: [u16; NKINDS] = [6, 5, 26, 3, 3, 4, 2, 2, 16, 2, 0, 1, 1, 2, 1, 3, 28, 10, 6, 6, 8, 2, 0, 0, 6, 0, 12, 0, 0, 1];
const W_READY: [u16; NKINDS] = [6, 4, 26, 3, 2, 3, 2, 2, 18, 2, 1, 1, 1, 2, 1, 1, 30, 12, 10, 3, 5, 3, 3, 1, 6, 0, 12, 0, 1, 1];
const W_READS: [u16; NKINDS] = [8, 5, 28, 3, 5, 4, 5, 3, 10, 6, 16, 1, 2, 1, 1, 0, 26, 6, 5, 2, 4, 1, 0, 0, 8, 2, 14, 0, 0, 0];
const W_MEMBERSHIP: [u16; NKINDS] = [6, 5, 26, 3, 2, 6, 2, 2, 10, 14, 0, 2, 2, 2, 1, 1, 26, 6, 8, 3, 5, 2, 0, 1, 6, 0, 12, 0, 4, 1];
const W_FLOW: [u16; NKINDS] = [6, 3, 30, 5, 5, 3, 2, 2, 24, 1, 0, 1, 1, 4, 3, 1, 28, 6, 5, 1, 3, 5, 8, 1, 8, 2, 12, 0, 1, 6];
const W_SNAPSHOT: [u16; NKINDS] = [6, 4, 26, 4, 5, 5, 4, 3, 18, 3, 0, 1, 1, 6, 2, 4, 26, 6, 6, 2, 5, 12, 1, 3, 6, 0, 12, 0, 0, 2];
const W_PREVOTE: [u16; NKINDS] = [10, 12, 22, 3, 5, 3, 5, 3, 8, 2, 0, 1, 3, 1, 1, 0, 26, 6, 4, 4, 6, 4, 0, 0, 16, 0, 12, 0, 0, 0];
const W_TRANSFER: [u16; NKINDS] = [8, 4, 28, 4, 3, 5, 2, 2, 14, 4, 0, 12, 1, 1, 1, 0, 26, 6, 5, 2, 4, 1, 1, 0, 8, 0, 14, 0, 0, 2];
const W_CHAOS: [u16; NKINDS] = [8, 6, 26, 4, 4, 5, 3, 2, 14, 5, 2, 2, 2, 3, 2, 2, 26, 8, 7, 3, 6, 3, 3, 1, 6, 1, 14, 2, 2, 3];

fn base(name: &'static str, weights: [u16; NKINDS]) -> Profile {
    Profile {
        name,
        weights,
        force_pre_vote: None,
        force_check_quorum: None,
        force_lease_read: Some(false),
        async_p: 96,
        warm_p: 176,
        swarm: true,
        weird_ids: true,
        tight_flow: false,
        no_priority: false,
        no_apply_unpersisted: true,
        min_voters: 1,
        allow_initial_joint: true,
        mode1_p: 0,
        sole_p: 0,
    }
}

fn has(f: u64, m: u64) -> bool {
    f & m != 0
}

pub fn spec_for(id: &str) -> Option<Spec> {
    let s = match id {
        "C01" => Spec {
            id: "C01",
            profile: base("safety", W_SAFETY),
            monitors: P01,
            options: 0,
            rule: "non-trivial = >=2 nodes committed >=3 entries each AND at least one of {leader change after a commit, log truncation, crash that lost un-fsynced data, snapshot installed, config change applied}; distinct = distinct raw case bytes",
            nontrivial: |_s, f| {
                has(f, F_TWO_NODES_3_COMMITS)
                    && has(f, F_LEADER_CHANGE_AFTER_COMMIT | F_TRUNCATION | F_CRASH_LOST | F_SNAP_INSTALLED | F_CONF_APPLIED)
            },
            quick_cases: 60000,
            thorough_cases: 3_000_000,
            ops_quick: (60, 260),
            ops_thorough: (60, 500),
            repro_options: None,
        },
        "C02" => Spec {
            id: "C02",
            profile: base("election", W_ELECTION),
            monitors: P02,
            options: crate::world::EXCLUDE_F11,
            rule: "non-trivial = >=2 distinct (term, leader) pairs AND (a voter crashed with an un-fsynced term/vote, or vote traffic was duplicated / delivered to a later incarnation, or a config change was applied)",
            nontrivial: |_s, f| has(f, F_TWO_LEADERS) && has(f, F_VOTE_UNSYNCED_CRASH | F_VOTE_DUP_OR_LATE | F_CONF_APPLIED),
            quick_cases: 60000,
            thorough_cases: 3_000_000,
            ops_quick: (60, 260),
            ops_thorough: (60, 500),
            repro_options: Some(crate::world::NO_F11_EXCLUSION),
        },
        "C03" => Spec {
            id: "C03",
            profile: base("election", W_ELECTION),
            monitors: P03,
            options: 0,
            rule: "non-trivial = a leader of term T observed while an entry committed in an earlier term exists and another node's log differs from the leader's, or a (pre-)vote request was decided while voter and candidate logs differed",
            nontrivial: |_s, f| has(f, F_LEADER_WITH_DIVERGENT_PEER | F_VOTE_DECIDED_VS_BETTER_LOG),
            quick_cases: 60000,
            thorough_cases: 3_000_000,
            ops_quick: (60, 260),
            ops_thorough: (60, 500),
            repro_options: None,
        },
        "C04" => {
            let mut p = base("durability", W_DURABILITY);
            p.async_p = 176;
            Spec {
                id: "C04",
                profile: p,
                monitors: P04,
                options: 0,
                rule: "non-trivial = a leader commit advance at which the leader's own disk did not hold the index, or some voter's volatile log held it but its disk did not, or the configuration was joint",
                nontrivial: |_s, f| has(f, F_COMMIT_LEADER_DISK_BEHIND | F_COMMIT_VOTER_VOLATILE_ONLY | F_COMMIT_JOINT),
                quick_cases: 60000,
                thorough_cases: 3_000_000,
                ops_quick: (60, 260),
                ops_thorough: (60, 500),
                repro_options: None,
            }
        }
        "C05" => Spec {
            id: "C05",
            profile: {
                // a larger share of single-voter groups with learners: the leader that crashes with entries it
                // sent but never persisted is then re-elected at once
                let mut p = base("safety", W_SAFETY);
                p.sole_p = 24;
                p
            },
            monitors: P05,
            options: 0,
            rule: "non-trivial = a truncating append occurred, or a leader crashed holding entries it had not persisted, or an append was split by max_size_per_msg",
            nontrivial: |_s, f| has(f, F_TRUNCATION | F_LEADER_CRASH_UNPERSISTED_SENT | F_SPLIT_APPEND),
            quick_cases: 60000,
            thorough_cases: 3_000_000,
            ops_quick: (60, 260),
            ops_thorough: (60, 500),
            repro_options: None,
        },
        "C06" => {
            let mut p = base("durability", W_DURABILITY);
            p.async_p = 128;
            Spec {
                id: "C06",
                profile: p,
                monitors: P06,
                options: 0,
                rule: "non-trivial = a crash lost un-fsynced state on a node with an unreleased promise pending, or a message was released while the node's disk lagged its volatile state",
                nontrivial: |_s, f| has(f, F_PROMISE_PENDING_LOST | F_RELEASE_WHILE_DISK_LAGS),
                quick_cases: 60000,
                thorough_cases: 3_000_000,
                ops_quick: (60, 260),
                ops_thorough: (60, 500),
                repro_options: None,
            }
        }
        "C07" => {
            let mut p = base("ready", W_READY);
            p.no_apply_unpersisted = false;
            p.async_p = 128;
            Spec {
                id: "C07",
                profile: p,
                monitors: P07,
                options: 0,
                rule: "non-trivial = >=3 Readies on one node AND (>=2 un-fsynced Readies outstanding at once, or a truncation between two Readies, or a snapshot Ready, or pagination split a batch, or a restart with handed-out entries pending)",
                nontrivial: |_s, f| {
                    has(f, F_THREE_READIES)
                        && has(f, F_MULTI_OUTSTANDING_READY | F_TRUNC_BETWEEN_READIES | F_SNAPSHOT_READY | F_PAGINATION | F_RESTART_MID_BATCH)
                },
                quick_cases: 50000,
                thorough_cases: 3_000_000,
                ops_quick: (60, 260),
                ops_thorough: (60, 500),
                repro_options: None,
            }
        }
        "C08" => {
            let mut p = base("reads", W_READS);
            p.force_lease_read = Some(false);
            p.min_voters = 1;
            p.sole_p = 40;
            Spec {
                id: "C08",
                profile: p,
                monitors: P08,
                options: 0,
                rule: "non-trivial = a read state was returned in a case where, between issue and answer, a leader change or a partition occurred, or the read was forwarded, or a heartbeat response was duplicated",
                nontrivial: |_s, f| has(f, F_READ_ANSWERED_NONTRIVIAL),
                quick_cases: 96000,
                thorough_cases: 3_000_000,
                ops_quick: (60, 260),
                ops_thorough: (60, 500),
                repro_options: None,
            }
        }
        "C09" => Spec {
            id: "C09",
            profile: base("membership", W_MEMBERSHIP),
            monitors: P09,
            options: 0,
            rule: "non-trivial = >=2 membership proposals of which >=1 arrived while another was unapplied or while joint and >=1 was applied on >=2 nodes; or a restart/snapshot restored a joint configuration",
            nontrivial: |_s, f| (has(f, F_CONF_WHILE_PENDING) && has(f, F_CONF_APPLIED_TWO_NODES)) || has(f, F_JOINT_RESTORED),
            quick_cases: 60000,
            thorough_cases: 3_000_000,
            ops_quick: (60, 260),
            ops_thorough: (60, 500),
            repro_options: None,
        },
        "C13" => {
            let mut p = base("flow", W_FLOW);
            p.tight_flow = true;
            p.min_voters = 2;
            p.warm_p = 200;
            Spec {
                id: "C13",
                profile: p,
                monitors: P13,
                options: 0,
                rule: "non-trivial = an inflight window became full, or a capacity change hit a non-empty window, or a rejection moved next_idx, or an append was split by size, or a proposal was refused for size",
                nontrivial: |_s, f| has(f, F_WINDOW_FULL | F_CAP_CHANGE_NONEMPTY | F_REJECT_MOVED_NEXT | F_SPLIT_APPEND | F_REFUSED_FOR_SIZE),
                quick_cases: 60000,
                thorough_cases: 3_000_000,
                ops_quick: (60, 260),
                ops_thorough: (60, 500),
                repro_options: None,
            }
        }
        "C15" => {
            let mut p = base("snapshot", W_SNAPSHOT);
            p.min_voters = 2;
            Spec {
                id: "C15",
                profile: p,
                monitors: P15 | P01 | P02 | P05,
                options: crate::world::EXCLUDE_F11,
                rule: "non-trivial = a snapshot was installed, ignored as stale or fast-forwarded in a case that also has a later append to that follower",
                nontrivial: |_s, f| has(f, F_SNAP_THEN_APPEND) || (has(f, F_SNAP_IGNORED_OR_FF) && has(f, F_SNAP_INSTALLED)),
                quick_cases: 60000,
                thorough_cases: 3_000_000,
                ops_quick: (60, 260),
                ops_thorough: (60, 500),
                repro_options: None,
            }
        }
        "C16" => {
            let mut p = base("prevote", W_PREVOTE);
            p.min_voters = 2;
            p.mode1_p = 128;
            Spec {
                id: "C16",
                profile: p,
                monitors: P16,
                options: 0,
                rule: "non-trivial = pre-vote requests were delivered to nodes in >=2 different roles, or (lockstep scenario) minority nodes reached PreCandidate >=2 times and a (pre-)vote request reached a majority member",
                nontrivial: |_s, f| has(f, F_PREVOTE_NONTRIVIAL),
                quick_cases: 60000,
                thorough_cases: 3_000_000,
                ops_quick: (60, 260),
                ops_thorough: (60, 500),
                repro_options: None,
            }
        }
        "C17" => {
            let mut p = base("transfer", W_TRANSFER);
            p.min_voters = 2;
            p.mode1_p = 96;
            Spec {
                id: "C17",
                profile: p,
                monitors: P17,
                options: 0,
                rule: "non-trivial = a transfer was issued to a lagging target, or aborted by timeout, or competing requests arrived, or it was forwarded through a follower",
                nontrivial: |_s, f| has(f, F_TRANSFER_NONTRIVIAL),
                quick_cases: 60000,
                thorough_cases: 3_000_000,
                ops_quick: (60, 260),
                ops_thorough: (60, 500),
                repro_options: None,
            }
        }
        "C20" => {
            let mut p = base("chaos", W_CHAOS);
            p.no_apply_unpersisted = false;
            p.force_lease_read = None;
            Spec {
                id: "C20",
                profile: p,
                monitors: P20,
                options: 0,
                rule: "non-trivial = case with >=1 crash or applied membership change and >=30 effective operations",
                nontrivial: |_s, f| has(f, F_CRASH_OR_CONF_AND_30),
                quick_cases: 60000,
                thorough_cases: 3_000_000,
                ops_quick: (60, 260),
                ops_thorough: (60, 500),
                repro_options: None,
            }
        }
        "C10" => {
            let mut p = base("liveness", W_CHAOS);
            p.no_priority = true;
            p.weird_ids = false;
            Spec {
                id: "C10",
                profile: p,
                monitors: P10,
                options: crate::world::EXCLUDE_F8,
                rule: "non-trivial = the fault prefix left >=1 of {follower in Snapshot state, full inflight window, paused probe, pending transfer, unapplied or joint config, >=2 nodes needing restart, divergent uncommitted tails}",
                nontrivial: |_s, f| has(f, F_LIVENESS_NONTRIVIAL),
                quick_cases: 60000,
                thorough_cases: 3_000_000,
                ops_quick: (30, 150),
                ops_thorough: (40, 300),
                repro_options: Some(crate::world::NO_F8_EXCLUSION),
            }
        }
        _ => return None,
    };
    Some(s)
}
