#!/usr/bin/env python3
"""Regenerates /verif/MANIFEST.json from the table below (kept next to the checks)."""
import json, subprocess

SIM = {
 # id: (design_ref, technique, text, note)
}
def sim(id, ref, text, note, technique="stateful property-based testing: generated fault/operation sequences interpreted against real RawNodes in a deterministic cluster simulator, ghost-state invariant monitors after every library call, proptest shrinking + delta debugging"):
    SIM[id] = (ref, technique, text, note)

COMMON_NOTE = ("Trusted base: the simulator (engine/src/world.rs), its application contract AC1-AC14 (DESIGN.md 2.2), SimStore as a conforming Storage, "
               "the monitor implementation; exploration is random (seeded) and bounded by case count and sequence length - absence of violations is not established.")

sim("C20", "DESIGN.md 6/C20",
    "Exploration: every library call of every generated execution (all op kinds, all cluster shapes, async persistence, crash points, removed peers that keep running, local message types offered to step) is wrapped in catch_unwind; any panic whose (file, statement) signature is not a listed finding is a violation; rejected steps must leave the node state (public fields + verif_view) unchanged. Right level: the property is a universally quantified absence-of-panic claim over call histories, which generated histories attack directly.",
    COMMON_NOTE)

DONE = list(SIM.keys())
ALL = ["C%02d" % i for i in range(1, 21)]

checks = []
for id in ALL:
    if id not in SIM:
        continue
    ref, technique, text, note = SIM[id]
    checks.append({
        "property_id": id,
        "quick_cmd": f"./check {id} --tier quick",
        "thorough_cmd": f"./check {id} --tier thorough",
        "evidence_file": f"/verif/evidence/{id}.json",
        "replay_cmd_template": f"./check {id} --replay {{path}}",
        "engine": "clustersim" if id in SIM else "component-models",
        "level_claimed": {"category": "exploration", "text": text, "design_ref": ref},
        "level_note": note,
        "technique": technique,
    })

hooks = subprocess.run(["git", "-C", "/repo", "log", "--format=%h %s"], capture_output=True, text=True).stdout.splitlines()
hook_commits = [l.split()[0] for l in hooks if l.split(" ", 1)[1].startswith("verif hook")]

manifest = {
    "version": 1,
    "setup_cmd": "cd /verif/engine && CARGO_NET_OFFLINE=true cargo build --release --offline",
    "hooks": {
        "guard": "cargo feature tikv_raft_rs_verif (off by default)",
        "enable": "the harness crates depend on raft = { path = \"/repo\", features = [\"tikv_raft_rs_verif\", \"protobuf-codec\"] }",
        "baseline_off_cmd": "cd /repo && cargo test --workspace --no-fail-fast --offline",
        "source_commits": hook_commits,
        "add_only": True,
    },
    "engines": [
        {"name": "clustersim", "path": "/verif/engine", "serves_properties": [c for c in DONE], "kind_free_text": "deterministic cluster simulator (real RawNode + simulated app/disk/network/clock) with ghost-state monitors; proptest-driven, byte-decoded cases shared with libFuzzer targets"},
    ],
    "checks": checks,
    "not_applicable": [{"property_id": id, "reason": "check under construction in this commit (engine exists, monitor not yet registered); see DESIGN.md 6"} for id in ALL if id not in SIM],
    "notes": "All checks: exit 0 = held on everything explored; exit 1 + 'VIOLATION property=<id> replay=<path>'; exit 2 = build failure / inconclusive. VERIF_SEED selects the PRNG seed. Known findings: /verif/known_findings.json.",
}
json.dump(manifest, open("/verif/MANIFEST.json", "w"), indent=1)
print("checks:", [c["property_id"] for c in checks])
