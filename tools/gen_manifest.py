#!/usr/bin/env python3
"""Regenerates /verif/MANIFEST.json from the table below (kept next to the checks)."""
import json, subprocess

SIM = {
 # id: (design_ref, technique, text, note)
}
def sim(id, ref, text, note, technique="stateful property-based testing: generated fault/operation sequences interpreted against real RawNodes in a deterministic cluster simulator, ghost-state invariant monitors after every library call, proptest shrinking + delta debugging"):
    SIM[id] = (ref, technique, text, note)

COMMON_NOTE = ("Trusted base: the simulator (engine/src/world.rs), its application contract AC1-AC15 (DESIGN.md 2.2), SimStore as a conforming Storage, "
               "the monitor implementation; exploration is random (seeded) and bounded by case count and sequence length - absence of violations is not established.")

S = "E1 deterministic cluster simulator: "
sim("C01", "DESIGN.md 6/C01", S+"first-report-wins committed log CL over commit indexes, Ready/LightReady committed_entries, sent/installed snapshots and restart-restored commit; application state digests compared with the digest chain of CL. Exploration level: the property quantifies over schedules/faults/crash points; generated histories with an explicit ghost oracle attack it directly, nothing is proved.", COMMON_NOTE)
sim("C02", "DESIGN.md 6/C02", S+"leader_of[term] map checked after every library call on every node, with election-dense generation (timeouts, duplicated/late vote traffic, crashes between vote and fsync, membership changes).", COMMON_NOTE)
sim("C03", "DESIGN.md 6/C03", S+"(A) every leader's log is compared against all entries committed by leaders of earlier terms (commit_term ghost); (B) every vote/pre-vote grant is checked at generation time against the voter's own last (term,index).", COMMON_NOTE)
sim("C04", "DESIGN.md 6/C04", S+"every leader commit advance is checked against the simulator-owned durable disk images (majority of each voter set holds (index, term) durably), every non-leader commit advance against commit_term; plus: a leader's matched index for a peer must be backed by an entry that was durable on that peer.", COMMON_NOTE)
sim("C05", "DESIGN.md 6/C05", S+"after every log change the node's logical log (storage+unstable) is compared with every other node's (running: volatile, crashed: disk) for log matching; leader append-only and committed-prefix immutability per call.", COMMON_NOTE)
sim("C06", "DESIGN.md 6/C06", S+"the simulator decides when a message leaves a node (AC2) and judges it at that instant against what has ever been durable on the sender (term, vote per term, entries, snapshot); restart state is compared with released promises. The former finding F1 (sole-voter leader; repaired in /repo) is kept as two plain regressions.", COMMON_NOTE)
sim("C07", "DESIGN.md 6/C07", S+"per-node hand-off ghost (next index to apply, last handed hard state, entries handed for persistence) checked on every Ready/LightReady; persisted-only rule against the disk image; must_sync two-sided; has_ready() <=> ready() non-empty decided on a clone (hook H1).", COMMON_NOTE)
sim("C08", "DESIGN.md 6/C08", S+"every read request records the global maximum commit index at issue time; every ReadState must appear on the issuing node with index >= that bound (Safe mode forced).", COMMON_NOTE)
sim("C09", "DESIGN.md 6/C09", S+"(a) what a leader appends on every proposal (incl. batched MsgPropose and auto-leave) against the one-pending-change / joint rules, (b,d) pre-state of every election start, (c) configuration as a function of the applied index across apply, snapshot install and restart.", COMMON_NOTE)
sim("C10", "DESIGN.md 6/C10", S+"bounded liveness as a finite-trace property: an arbitrary generated fault prefix is followed by a deterministic fair suffix (everything restarted, healed, fsynced, snapshot reports delivered, every node ticked once per round, all messages delivered, periodic probe proposals); within 12 maximal election timeouts (checked up to 8x before reporting) one leader among the members, a probe entry applied on every running member, logs and commit indexes equal. Liveness under unfair schedules or beyond the bound is not claimed.", COMMON_NOTE, "stateful property-based testing with a deterministic fair suffix: generated fault prefix + bounded-convergence oracle evaluated after every round; proptest shrinking + delta debugging")
sim("C13", "DESIGN.md 6/C13", S+"every message a leader emits is checked for shape (contiguous slice of its own log, anchor term, commit bounds, size limit) and against the per-follower progress state before/after the call (snapshot / paused probe / full window / inflight accounting); true uncommitted payload bytes are tracked independently of the crate's counter.", COMMON_NOTE)
sim("C15", "DESIGN.md 6/C15", S+"pre/post conditions of every delivered MsgSnapshot (install / ignore / fast-forward), leader-side justification of every MsgSnapshot sent, anchor of the first append after a finished snapshot, application state digests after install; C01/C02/C05 monitors stay on under aggressive compaction.", COMMON_NOTE)
sim("C16", "DESIGN.md 6/C16", S+"(1) pre-vote requests never change (term, vote); (2) with pre_vote on, a term rise needs a higher-term message, MsgTimeoutNow, or a quorum of granted pre-vote responses tallied by the simulator from delivered messages.", COMMON_NOTE)
sim("C17", "DESIGN.md 6/C17", S+"MsgTimeoutNow only to a fully matched target; proposals refused and log unchanged while a transfer is pending; transfer abandoned within election_tick own ticks or when the target leaves the voters; requests naming learners/unknown ids/self handled as stated.", COMMON_NOTE)
sim("C20", "DESIGN.md 6/C20",
    "Exploration: every library call of every generated execution (all op kinds, all cluster shapes, async persistence, crash points, removed peers that keep running, local message types offered to step) is wrapped in catch_unwind; any panic whose (file, statement) signature is not a listed finding is a violation; rejected steps must leave the node state (public fields + verif_view) unchanged. Right level: the property is a universally quantified absence-of-panic claim over call histories, which generated histories attack directly.",
    COMMON_NOTE)

COMP_NOTE = "Trusted base: the reference model in engine/src/comp_*.rs (a few dozen lines each, written from the documented semantics) and the generators; calls whose documented contract is a panic are not generated; random exploration, nothing is proved."
CT = "model-based property testing: proptest-generated operation sequences applied to the real component and to a small reference model, every observable compared after every step; proptest shrinking"
sim("C11", "DESIGN.md 6/C11", "E2 component check: JointConfig/MajorityConfig committed_index (plain and group commit) and vote_result, ProgressTracker tally_votes/has_quorum/maximal_committed_index against sort-and-pick / counting / brute-force models over arbitrary (also empty, overlapping) halves built through hook H2.", COMP_NOTE, CT)
sim("C12", "DESIGN.md 6/C12", "E2 component check: Changer simple/enter_joint/leave_joint, restore, Raft::apply_conf_change and Raft::new against a set model re-implemented from the etcd/raft specification; invariants, accept/reject agreement, restore round trip, brute-force quorum intersection over all subsets.", COMP_NOTE, CT)
sim("C14", "DESIGN.md 6/C14", "E2 component check: RaftLog over a conforming Storage (SimStore) against a plain sequence model with three cursors and a stable boundary; all queries after every op.", COMP_NOTE, CT)
sim("C18", "DESIGN.md 6/C18", "E2 component check: Inflights against a VecDeque model with capacity and pending capacity; content and order probed on a copy after every op.", COMP_NOTE, CT)
sim("C19", "DESIGN.md 6/C19", "E2 component check: MemStorage/MemStorageCore against snapshot point + contiguous entries model; Ok values and documented error kinds compared.", COMP_NOTE, CT)
DONE = list(SIM.keys())
ALL = ["C%02d" % i for i in range(1, 21)]

checks = []
for id in ALL:
    if id not in SIM:
        continue
    ref, technique, text, note = SIM[id]
    checks.append({
        "property_id": id,
        "quick_cmd": f"./check {id} --tier quick",
        "thorough_cmd": f"./check {id} --tier thorough",
        "evidence_file": f"/verif/evidence/{id}.json",
        "replay_cmd_template": f"./check {id} --replay {{path}}",
        "engine": "component-models" if id in ("C11","C12","C14","C18","C19") else "clustersim",
        "level_claimed": {"category": "exploration", "text": text, "design_ref": ref},
        "level_note": note,
        "technique": technique,
    })

hooks = subprocess.run(["git", "-C", "/repo", "log", "--format=%h %s"], capture_output=True, text=True).stdout.splitlines()
hook_commits = [l.split()[0] for l in hooks if l.split(" ", 1)[1].startswith("verif hook")]

manifest = {
    "version": 1,
    "setup_cmd": "cd /verif/engine && CARGO_NET_OFFLINE=true cargo build --release --offline",
    "hooks": {
        "guard": "cargo feature tikv_raft_rs_verif (off by default)",
        "enable": "the harness crates depend on raft = { path = \"/repo\", features = [\"tikv_raft_rs_verif\", \"protobuf-codec\"] }",
        "baseline_off_cmd": "cd /repo && cargo test --workspace --no-fail-fast --offline",
        "source_commits": hook_commits,
        "add_only": True,
    },
    "engines": [
        {"name": "component-models", "path": "/verif/engine", "serves_properties": [c for c in DONE if c in ("C11","C12","C14","C18","C19")], "kind_free_text": "model-based component checks (proptest op sequences vs reference models), same crate and driver"},
        {"name": "clustersim", "path": "/verif/engine", "serves_properties": [c for c in DONE if c not in ("C11","C12","C14","C18","C19")], "kind_free_text": "deterministic cluster simulator (real RawNode + simulated app/disk/network/clock) with ghost-state monitors; proptest-driven, byte-decoded cases shared with libFuzzer targets"},
    ],
    "checks": checks,
    "not_applicable": [{"property_id": id, "reason": "check under construction in this commit (engine exists, monitor not yet registered); see DESIGN.md 6"} for id in ALL if id not in SIM],
    "notes": "All checks: exit 0 = held on everything explored; exit 1 + 'VIOLATION property=<id> replay=<path>'; exit 2 = build failure / inconclusive. VERIF_SEED selects the PRNG seed. Known findings: /verif/known_findings.json.",
}
json.dump(manifest, open("/verif/MANIFEST.json", "w"), indent=1)
print("checks:", [c["property_id"] for c in checks])
