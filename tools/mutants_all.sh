#!/bin/bash
# run every collected mutant of the given properties against its own check (and extra ids)
for id in "$@"; do
  for p in /tmp/mut/$id/_out/patch*.diff; do
    [ -f "$p" ] || continue
    echo "######## $id $(basename $p)"
    /verif/tools/mutant_run.sh $p ${id:0:3} ${EXTRA:-} 2>&1 | grep -E "^==|VIOLATION|apply|dirty|BUILD" | cut -c1-160
  done
done
