#!/bin/bash
# tools/verify_seeded.sh <ID> <n> : confirm mutant n of property ID in a scratch worktree of /repo HEAD:
#  suite passes with patch, demo fails with patch, demo passes without. Writes /tmp/vs/<ID>-<n>.result
id=$1; n=$2
src=/tmp/mut/$id/_out
wt=/tmp/vs/wt-$id-$n
mkdir -p /tmp/vs
res=/tmp/vs/$id-$n.result
rm -rf $wt; git -C /repo worktree prune
git -C /repo worktree add --detach $wt HEAD -q || { echo "worktree failed" > $res; exit 1; }
cp /repo/Cargo.lock $wt/; cp -r /repo/target $wt/target
cd $wt
patch=$src/patch$n.diff; demo=$src/demo$n.rs
[ -f $patch ] || patch=$(ls $src/patch${n}*.diff | head -1)
[ -f $demo ] || demo=$(ls $src/demo${n}*.rs | head -1)
{
echo "patch=$patch demo=$demo head=$(git -C /repo log --format=%h -1)"
if ! git apply --check $patch 2>/dev/null; then echo "APPLY: FAIL"; else
git apply $patch
suite=$(cargo test --workspace --no-fail-fast --offline 2>&1 | grep -E "^test result" | awk '{p+=$4; f+=$6} END {print p" passed "f" failed"}')
echo "SUITE_WITH_PATCH: $suite"
# place demo: harness/tests by default; root tests/ if it says so
if grep -q "tests/demo" $demo && grep -q -- "--test demo" $demo && ! grep -q "harness/tests" $demo; then mkdir -p tests; cp $demo tests/demo$n.rs; cmd="cargo test --offline --test demo$n"; else cp $demo harness/tests/demo$n.rs; cmd="cargo test --offline -p harness --test demo$n"; fi
out=$($cmd 2>&1); echo "$out" | grep -E "^test result|panicked|error(\[|:)" | head -5
echo "$out" | grep -q "test result: FAILED" && echo "DEMO_WITH_PATCH: FAILS (good)" || echo "DEMO_WITH_PATCH: does not fail"
git checkout -- src proto 2>/dev/null
out=$($cmd 2>&1); echo "$out" | grep -E "^test result" | head -3
echo "$out" | grep -q "test result: ok" && ! echo "$out" | grep -q "test result: FAILED" && echo "DEMO_WITHOUT_PATCH: PASSES (good)" || echo "DEMO_WITHOUT_PATCH: does not pass"
fi
} > $res 2>&1
cd /; git -C /repo worktree remove --force $wt
cat $res | grep -E "APPLY|SUITE|DEMO_" | tr '\n' ' '; echo
