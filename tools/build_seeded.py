#!/usr/bin/env python3
"""Builds /verif/seeded/<ID>-<n>/ from the verified sub-agent mutants under /tmp/mut and the
detection logs. Run after tools/verify_seeded.sh and tools/mutants_all.sh."""
import json, os, re, shutil, glob, sys

NEEDS = {
 "C01-1": ("step_leader: pending_conf_index = last_index + 1 (position in a batched MsgPropose ignored)", "a batched MsgPropose [normal, conf-change] followed by a second conf change while the first is unapplied; then a partition so that old and new quorums commit different entries"),
 "C01-2": ("step_candidate: a Candidate no longer ignores stale MsgRequestPreVoteResponse", "pre_vote on, two concurrent pre-campaigns, a pre-vote grant delayed past the PreCandidate->Candidate transition"),
 "C02-1": ("step_candidate: the Candidate half of the vote-response type filter dropped", "pre_vote on, 5 voters, two pre-candidates for the same term, late pre-vote grants"),
 "C02-2": ("RawNode::ready: is_persisted_msg also false when the previous Ready was taken as leader", "a leader steps down and grants a vote in the same Ready; crash between sending and persisting; restart; competing candidate of the same term"),
 "C03-1": ("step_candidate: vote-response filter simplified (pre-vote grants counted as votes)", "delayed pre-vote grant arriving after the node became Candidate while the old leader commits with the other node"),
 "C03-2": ("Progress::reset no longer clears matched", "5 nodes, the same node leader twice, a follower's acknowledged tail truncated in between, partitions at the right moments"),
 "C04-1": ("Progress::reset no longer clears matched", "same as C03-2: stale matched index counted toward the quorum of new own-term entries"),
 "C04-2": ("RawNode::ready: is_persisted_msg also false when the previous Ready was taken as leader", "old leader learns of the new term by the new leader's MsgAppend: step-down and ack in one Ready; crash after sending, before writing"),
 "C05-1": ("RaftLog::slice: early return dropped when the stable part was cut by max_size", "finite max_size_per_msg, small entries followed by an oversized one in storage, a rejected probe moving next_idx into the stable range, a fresh proposal only in the unstable log"),
 "C06-1": ("RawNode::ready: a PreCandidate's messages are immediate", "pre_vote on, node at term T with vote 0 becomes pre-candidate, grants a delayed real MsgRequestVote(T), crashes before the hard state is written, votes again after restart"),
 "C06-2": ("RawNode::ready: must_sync ignores a vote-only change", "node enters term T without voting, later grants a vote in T; application honours must_sync=false; power failure"),
 "C07-2": ("RawNode::ready: must_sync only on term change", "vote change inside an unchanged term with no entries/snapshot in that Ready"),
 "C08-1": ("JointConfig::is_singleton ignores the outgoing half", "explicit joint change to incoming {leader} applied on the leader only, partition, new leader under the old config commits, read on the old leader"),
 "C09-1": ("step_leader: has_pending_conf()/joint evaluated once before the per-entry loop", "one MsgPropose carrying two conf-change entries at a leader with nothing pending"),
 "C09-2": ("has_unapplied_conf_changes: scan callback continue/stop inverted", "small max_committed_size_per_ready so that the unapplied committed tail spans several pages with the conf change past the first page, then an election timeout or MsgTimeoutNow"),
 "C10-1": ("step: election_elapsed reset also when granting a pre-vote", "pre_vote + check_quorum, leader crashed, two of three voters left, the candidate keeps timing out before the voter"),
 "C10-2": ("Progress::reset no longer resets the replication state", "snapshot lost, leader deposed while a follower is in Snapshot state, new leader crashes, old leader re-elected without restart"),
 "C11-1": ("MajorityConfig::committed_index: select_nth shortcut for >7 voters picks the quorum-th smallest", "8 or 10 voters"),
 "C11-2": ("ProgressTracker::tally_votes: Pending fast path from the incoming half only", "joint config whose outgoing half is smaller and rejects first"),
 "C12-1": ("Changer::make_voter no longer clears learners_next", "one enter-joint list that demotes a voter and promotes it again"),
 "C12-2": ("IncrChangeMap::contains uses the first staged change for an id", "a change list mentioning the same id three times with alternating effect"),
 "C13-1": ("Inflights::reset discards a pending smaller capacity", "adjust_max_inflight_msgs to a smaller value on a non-empty window, then a Progress state change before it drains"),
 "C13-2": ("become_leader: last_log_tail_index = committed", "leader elected with an uncommitted payload-carrying tail of an older term; budget filled; commit passes only the old tail"),
 "C14-1": ("RaftLog::maybe_persist: index <= first_update_index", "async follower, a new leader overwrites exactly the last in-flight index before on_persist_ready"),
 "C14-2": ("find_conflict_by_term: error exit returns the input index", "compacted storage whose boundary term is unavailable (MemStorage) and all retained terms above the query term"),
 "C15-1": ("handle_append_entries: no early return while a snapshot request is pending", "request_snapshot() with the request lost, an append sent before the request gets through, third voter partitioned"),
 "C15-2": ("RawNode::ready: commit_since_index not set from the snapshot", "snapshot installed through ready()/advance(), then a campaign (or any use of the applied index) before another entry is applied"),
 "C16-1": ("step_candidate: PreCandidate half of the vote-response filter dropped", "node becomes Candidate with grants delayed, is partitioned, times out back to PreCandidate, delayed real grants arrive"),
 "C16-2": ("step_candidate: no become_follower before handle_snapshot", "leader compacts past a partitioned node, MsgSnapshot delayed until the node is a PreCandidate"),
 "C17-1": ("handle_append_response: TimeoutNow when next_idx > last_index", "two pipelined appends to a lagging transfer target, ack for the first only"),
 "C17-2": ("post_conf_change: abort transfer only if the target has no Progress", "transfer pending while a change demoting the target to learner is applied"),
 "C18-1": ("Inflights::maybe_free_buffer no longer resets start", "window drained by acks with start != 0, buffer freed, then another add"),
 "C18-2": ("Inflights::reset discards a pending smaller capacity", "set_cap smaller on a non-empty window, then reset() before it drains"),
 "C19-1": ("MemStorage::entries: LogTemporarilyUnavailable decided before the bounds checks", "trigger_log_unavailable(true) and an async-capable read that starts at a compacted index"),
 "C19-2": ("MemStorageCore::apply_snapshot: commit = max(commit, index)", "snapshot applied at an index below the stored commit"),
 "C19-3": ("MemStorageCore::apply_snapshot: out-of-date guard compares the wrong field", "a snapshot whose index lies between the last snapshot's index and the first retained index after a compaction"),
 "C20-1": ("Raft::restore: early return for snapshots below the commit index removed", "duplicated MsgSnapshot after the follower restored the first copy, committed past it and compacted beyond it"),
 "C20-2": ("is_response_msg no longer lists MsgRequestPreVoteResponse", "pre_vote on, a removed peer's rejected pre-vote response stepped at a node that no longer tracks it"),
}

NEEDS.update({
 "C01b-1": ("step_follower/MsgReadIndexResp: commit_to(min(index,last)) instead of maybe_commit(index, term)", "deposed leader with a stale uncommitted tail, partition heals, new leader's heartbeat arrives before the repairing append, a forwarded read_index whose response overtakes the append"),
 "C01b-2": ("has_unapplied_conf_changes: scan callback returns `found` (stops after the first page without a conf change)", "max_committed_size_per_ready small, unapplied committed tail [normal, conf change] spanning pages, election timeout"),
 "C02b-1": ("has_unapplied_conf_changes: scan callback return values swapped", "finite page size, backlog starting with ordinary entries then two conf changes, partition between old-config and new-config majorities, both campaign"),
 "C02b-2": ("poll: the Lost branch also clears self.vote", "pre_vote on: a node votes for B in term T, loses a pre-vote (stays in T, vote erased), then grants a delayed MsgRequestVote(T) from A"),
 "C03b-1": ("RawNode::advance: applied captured after the LightReady is generated", "follower catches up on a conf change and its commit in one MsgAppend, application applies LightReady entries later, election timer fires in that window"),
 "C03b-2": ("Raft::request_snapshot: request_index = committed instead of last_index", "request_snapshot() on a follower holding acknowledged entries above its commit index; leader snapshot in [committed, last)"),
 "C04b-1": ("ProgressTracker::maximal_committed_index uses only the incoming half", "joint configuration with a majority of the outgoing set unreachable and the entry acknowledged by the incoming majority"),
 "C04b-2": ("maybe_commit_by_vote: the `state == Leader` early return dropped", "leader whose commit lags receives a late vote / pre-vote request naming a higher commit"),
 "C05b-1": ("Raft::request_snapshot: request_index = committed instead of last_index", "same as C03b-2"),
 "C05b-2": ("MemStorageCore::apply_snapshot: entries.retain(index > snapshot) instead of clear()", "snapshot installed below the store's last index (MemStorage only)"),
 "C07b-1": ("RaftLog::maybe_persist: index <= first_update_index", "async follower, new leader's append conflicting exactly at the last in-flight index, late on_persist_ready"),
 "C07b-2": ("RaftLog::slice: early return dropped when the stable part was cut by max_size", "size-limited read spanning stable/unstable with a larger stable entry followed by smaller unstable ones"),
 "C08b-1": ("step_leader/MsgReadIndex: single-voter fast path before the commit_to_current_term() guard", "single voter, commit index known but not persisted (must_sync false) and not applied, crash, restart, instant re-election, read before the first persist"),
 "C08b-2": ("Raft::reset no longer re-creates read_only", "a read left pending on a partitioned stale leader across a leadership change; after re-election an ordinary heartbeat carries the old context"),
 "C09b-1": ("post_conf_change: promotable updated after the removed-leader early return", "a leader commits and applies its own removal, is then ticked past its election timeout or sent MsgTimeoutNow"),
 "C09b-2": ("hup: scan upper bound min(committed, persisted)+1", "async follower with a committed but not yet persisted conf change when its election timer fires"),
 "C13b-1": ("Progress::reset rewritten through reset_state (matched no longer cleared)", "5 voters, same node leader twice with a follower's acknowledged tail overwritten in between; first heartbeat of the new term"),
 "C13b-2": ("handle_append_response Snapshot arm: leaves Snapshot state when matched+1 >= first_index", "delayed old ack arrives while a snapshot is outstanding"),
 "C15b-1": ("Raft::request_snapshot: request_index = committed instead of last_index", "same as C03b-2"),
 "C15b-2": ("tracker::Configuration::clear() no longer resets auto_leave", "follower in an auto-leave joint configuration must restore a snapshot carrying a simple configuration"),
 "C16b-1": ("step: granted pre-vote responses exempt from the term rule only for a PreCandidate", "a granted pre-vote delayed until the node is a follower again at the old term"),
 "C16b-2": ("step: in_lease compares election_elapsed with heartbeat_timeout", "idle 3-node cluster, node isolated until its election timeout, rejoins; its pre-vote reaches the leader first"),
 "C17b-1": ("handle_transfer_leader: learner check moved below the abort of a pending transfer", "transfer pending to a lagging voter, then a request naming a learner"),
 "C17b-2": ("handle_append_response: abort_leader_transfer() right after MsgTimeoutNow on the catch-up path", "lagging but reachable target, proposal arriving while the hand-off is in flight"),
 "C20b-1": ("hup: scan lower bound applied+1 (pending snapshot ignored)", "follower with a stepped but unhandled MsgSnapshot whose election timer fires"),
 "C20b-2": ("confchange::restore: learners_next no longer replayed", "restart or snapshot restore in a joint configuration with a staged learner"),
})

NEEDS.update({
 "C06b-1": ("Ready::take_messages no longer keeps a non-leader's messages back (is_persisted_msg guard forgotten in the consuming accessor)", "an application that uses take_messages() (as the examples do) on a follower/candidate whose Ready carries a vote or an acknowledgement together with the hard state / entries it depends on; crash between sending and writing"),
 "C06b-2": ("step_candidate: a Candidate tallies late pre-vote grants as votes", "pre_vote on, pre-vote grants delayed past the PreCandidate->Candidate transition, real votes refused; two leaders / vote promises broken"),
 "C10b-1": ("become_leader no longer clears the uncommitted-size account", "max_uncommitted_size set; a leader accepts proposals it cannot commit, is deposed and loses that tail, then is re-elected without a restart: every further proposal is refused"),
 "C10b-2": ("handle_snapshot_status: a failed snapshot report no longer moves the progress back to Probe", "follower lagging past the compaction point, snapshot lost and reported as failed, no leader change afterwards: follower never caught up"),
 "C11b-1": ("MajorityConfig::committed_index heap path: vec![0; n] then push (2n elements)", "8 or 9 voters in one half"),
 "C11b-2": ("ProgressTracker::vote_result: early Pending while fewer votes than a majority of the incoming half are recorded", "even-sized sets, joint configs with a smaller outgoing half, rejections arriving first"),
 "C12b-1": ("Changer::apply: 'removed all voters' guard also requires an empty outgoing half", "an enter-joint change that removes or demotes every current voter, followed by leave-joint"),
 "C12b-2": ("ProgressTracker::clear no longer clears the progress map", "Raft::restore of a snapshot whose ConfState lacks a peer the follower currently tracks"),
 "C14b-1": ("RaftLog::slice: early return dropped when the stable part was cut by max_size", "unequal entry sizes: a big stored entry cuts the stable read while a small unstable entry still fits"),
 "C14b-2": ("RaftLog::last_term fast path ignores a pending snapshot without entries behind it", "between accepting a snapshot and persisting it, before any append: vote request or up-to-date query"),
 "C18b-1": ("Inflights::full: count > cap instead of >= for a pending smaller capacity", "set_cap smaller on a non-empty window, count reaching exactly the new capacity before the window drains"),
 "C18b-2": ("Inflights::set_cap grow path tests wrap-around against buffer.capacity() instead of cap", "in-place grow of a full window (Vec over-allocates), ring wraps relative to cap, second grow"),
 "C19b-1": ("MemStorage::snapshot: request_index guard compares the last applied snapshot's index", "request_index strictly between the last snapshot's index and the stored commit index"),
 "C19b-2": ("MemStorageCore::append fast path: returns early when the batch's last entry is already stored with the same term", "an overwriting append that ends inside the stored log on an equal (index, term)"),
})

NOT_VIOLATING = {
 "C06b-2": "not kept: written against the tree before the F1 repair (caught then by C06:quick); with the repair a node that becomes leader in the Ready that first carries its new term holds its messages until that Ready is persisted, so the persist-before-send demonstration no longer fails (the change still lets a Candidate count pre-vote grants, which is C02/C03 territory and is covered there by C01-2, C02-1, C03-1)",
 "C02-2": "not kept: written against the tree before the F1 repair (caught then by C06:quick and C02:thorough); the repaired Ready logic holds every message of a Ready that changes term or vote, which neutralises this change - its demonstration no longer fails",
 "C04-2": "not kept: same change as C02-2, neutralised by the F1 repair (caught before it by C04:quick and C06:quick)",
 "C06-1": "not kept: written against the tree before the F1 repair (caught then by C06:quick); the granted vote that followed the pre-candidacy is now held by the term/vote rule of the repaired Ready logic",
 "C18b-1": "not kept: the changed behaviour stays inside the property as stated (\"a reduced capacity takes effect no later than when the window drains\": until then either capacity may bound the window; the model in comp_small.rs accepts both on purpose, otherwise a lazier but conforming implementation would raise a false alarm)",
}

NEEDS.update({
 "C02c-2": ("step_leader: pending_conf_index = last_index + 1 for every entry of a batched MsgPropose (same change as C01-1, written independently)", "batched [normal, conf change] proposal, second conf change while the first is uncommitted, partition into old-config and new-config majorities, both sides time out"),
 "C03c-1": ("Raft::step vote arm: the transfer-leader exemption from the priority check also skips is_up_to_date", "transfer to an up-to-date follower whose MsgTimeoutNow is delayed; the leader times the transfer out and commits another entry; the delayed message arrives; both peers grant the stale transferee"),
 "C03c-2": ("step_leader: pending_conf_index = last_index + 1 for every entry of a batched MsgPropose (same change as C01-1, written independently)", "batched proposal, two overlapping membership changes, one-entry appends, a node elected by the old configuration's majority lacks an entry committed under the new one"),
 "C15c-1": ("Progress::reset rewritten through reset_state(): pending_request_snapshot no longer cleared", "a follower requests a snapshot, the leader sends it and loses leadership before the status report, the same node is re-elected later: unrequested snapshot although nothing was compacted"),
 "C15c-2": ("RawNode::report_snapshot: reject flag set for Finish instead of Failure", "follower behind the compaction point, progress in Snapshot state, status report arriving before the follower's acknowledgement"),
})
NOT_VIOLATING["C02c-1"] = "not kept: duplicate of C07-2 / C06-2 (RawNode::ready: must_sync only on a term change), written independently for C02; does not apply to the amended HEAD"

NEEDS.update({
 "C05c-1": ("RawNode::ready: 'term or vote changed' test uses && (ported to the amended F1 repair)", "sole voter with a learner whose durable vote is already itself (it led before and restarted) campaigns again: only the term changes, the Ready is not held, async persistence, crash before the disk catches up, same term won twice with different entries"),
 "C05c-2": ("RawNode::ready: the record of a Ready no longer remembers its own term/vote change (ported to the amended F1 repair)", "sole voter with a learner, asynchronous persistence, a second Ready before on_persist_ready, leader crash and re-election in the same term"),
})

def verified():
    ok = {}
    for f in ["/tmp/vs_final.log"]:
        if not os.path.exists(f): continue
        for l in open(f):
            m = re.match(r"(C\d\d[a-z]?)-(\d)\w*: (.*)", l.strip())
            if not m: continue
            key = f"{m.group(1)}-{m.group(2)}"
            ok[key] = ("FAILS (good)" in l and "PASSES (good)" in l and "270 passed 0 failed" in l, m.group(3))
    return ok

def detection():
    if os.path.exists("/tmp/mut_final.json"):
        raw = json.load(open("/tmp/mut_final.json"))
        return {k: {c: bool(v) for c, v in r.items() if c != "apply" and v is not None} for k, r in raw.items()}
    det = {}
    for f in sorted(glob.glob("/tmp/mut_*.log")):
        cur = None
        for l in open(f):
            m = re.match(r"######## (C\d\d[a-z]?) patch(\d)", l)
            if m: cur = f"{m.group(1)}-{m.group(2)}"; continue
            m = re.match(r"== (C\d\d) rc=(\d+)", l)
            if m and cur:
                tier = "thorough" if "thorough" in f else "quick"
                det.setdefault(cur, {})[f"{m.group(1)}:{tier}"] = (m.group(2) == "1")
    return det

def main():
    ok = verified(); det = detection()
    os.makedirs("/verif/seeded", exist_ok=True)
    rows = []
    for key, (what, needs) in sorted(NEEDS.items()):
        d0, n = key.split("-")
        pid = d0[:3]
        src = f"/tmp/mut/{d0}/_out"
        v = ok.get(key)
        if key in NOT_VIOLATING:
            shutil.rmtree(f"/verif/seeded/{key}", ignore_errors=True)
            rows.append((key, what, NOT_VIOLATING[key], ""))
            continue
        if not v or not v[0]:
            shutil.rmtree(f"/verif/seeded/{key}", ignore_errors=True)
            rows.append((key, what, "NOT KEPT (not confirmed on current HEAD: %s)" % (v[1] if v else "no verification record"), ""))
            continue
        d = f"/verif/seeded/{key}"
        os.makedirs(d, exist_ok=True)
        shutil.copy(sorted(glob.glob(f"{src}/patch{n}*.diff"))[0], f"{d}/patch.diff")
        shutil.copy(sorted(glob.glob(f"{src}/demo{n}*.rs"))[0], f"{d}/demo.rs")
        dd = det.get(key, {})
        caught = sorted(k for k, val in dd.items() if val)
        missed = sorted(k for k, val in dd.items() if not val)
        meta = {
            "property_id": pid,
            "change": what,
            "needs_to_manifest": needs,
            "origin": "fresh sub-agent given only the property text and a scratch worktree of /repo",
            "confirmed": {
                "how": "tools/verify_seeded.sh %s %s (scratch worktree of /repo HEAD): full suite with patch, demonstration with patch, demonstration without patch" % (d0, n),
                "result": v[1],
            },
            "checks_run": {"caught_by": caught, "not_caught_by": missed},
        }
        json.dump(meta, open(f"{d}/meta.json", "w"), indent=1)
        rows.append((key, what, ", ".join(caught) if caught else "-", ", ".join(missed)))
    with open("/verif/seeded/RESULTS.md", "w") as f:
        f.write("# Seeded changes: which checks catch which\n\n")
        f.write("`ID:tier` = the check of property ID at that tier exits 1 with a VIOLATION line when the patch is applied to /repo. Every kept change compiles, passes the 254 baseline tests (270 incl. doc tests) and has a demonstration that fails with it and passes without (confirmed on the current HEAD).\n\n")
        f.write("| change | what | caught by | run but not caught by |\n|---|---|---|---|\n")
        for r in rows:
            f.write("| %s | %s | %s | %s |\n" % r)
    print(open("/verif/seeded/RESULTS.md").read())

main()
