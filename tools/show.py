#!/usr/bin/env python3
import json,sys
j=json.load(open(sys.argv[1]))
print(j['violation']['detail'][:400])
for i,o in enumerate(j['case']['ops']): print(i,o)
s=j['case']['scenario']; print({k:s[k] for k in s if k!='nodes'})
print([ (i+1,'async' if n['async_io'] else 'sync', 'batch' if n['batch_append'] else '') for i,n in enumerate(s['nodes'])])
