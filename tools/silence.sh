#!/bin/bash
# tools/silence.sh "<ids>" "<seeds>" : run quick checks on the unchanged tree, report any non-zero exit
ids=${1:-"C01 C02 C03 C04 C05 C06 C07 C08 C09 C13 C15 C16 C17 C20"}
seeds=${2:-"11 12 13"}
cd /verif
for id in $ids; do for s in $seeds; do
  out=$(VERIF_SEED=$s ./check $id --tier ${TIER:-quick} 2>&1); rc=$?
  if [ $rc -ne 0 ]; then echo "!! $id seed=$s rc=$rc"; echo "$out" | grep -E -B2 "VIOLATION|INCONCLUSIVE|BUILD" | cut -c1-400; else echo "ok $id seed=$s $(echo "$out" | grep -E "quick:|thorough:" | cut -c1-100)"; fi
done; done
