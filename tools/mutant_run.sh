#!/bin/bash
# tools/mutant_run.sh <patch.diff> <ID> [<ID>...]  : apply patch to /repo, run quick checks, undo.
patch=$1; shift
git -C /repo diff --quiet || { echo "/repo dirty"; exit 2; }
git -C /repo apply "$patch" || { echo "patch does not apply"; exit 2; }
for id in "$@"; do
  out=$(cd /verif && VERIF_SEED=${VERIF_SEED:-1} ./check $id --tier ${TIER:-quick} 2>&1); rc=$?
  echo "== $id rc=$rc"; echo "$out" | grep -E "VIOLATION|signature|quick:|thorough:|INCONCLUSIVE|BUILD" | cut -c1-220
  echo "$out" | grep -B3 VIOLATION | head -3 | cut -c1-300
done
git -C /repo checkout -- .
