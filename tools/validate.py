#!/usr/bin/env python3
import json, jsonschema, glob, sys
ok = True
try:
    jsonschema.validate(json.load(open('/verif/MANIFEST.json')), json.load(open('/root/.vp/MANIFEST.schema.json')))
    print("MANIFEST valid")
except Exception as e:
    ok = False; print("MANIFEST INVALID:", str(e)[:300])
es = json.load(open('/root/.vp/EVIDENCE.schema.json'))
for f in sorted(glob.glob('/verif/evidence/*.json')):
    try:
        jsonschema.validate(json.load(open(f)), es); print(f, "valid")
    except Exception as e:
        ok = False; print(f, "INVALID:", str(e)[:300])
sys.exit(0 if ok else 1)
