#!/usr/bin/env python3
"""Runs every collected seeded change (/tmp/mut/<ID>/_out/patchN.diff) against its own check (quick),
the checks that caught it before, and - when nothing at the quick tier catches it - its own check at the
thorough tier. Writes /tmp/mut_final.json {key: {"ID:tier": caught}}. /repo is patched and restored per change."""
import glob, json, os, re, subprocess, sys

EXTRA = {  # cross-checks worth running (from earlier rounds)
 "C01-1": ["C09"], "C05c-1": ["C06", "C07"], "C05c-2": ["C06"], "C02c-2": ["C09"], "C03c-2": ["C09"], "C03c-1": ["C17"], "C15c-1": ["C13"], "C03-2": ["C04"], "C01b-2": ["C09"], "C02-2": ["C06"], "C02b-1": ["C09"], "C02b-2": ["C06"],
 "C03b-1": ["C07"], "C03b-2": ["C06", "C04"], "C04-2": ["C06"], "C05b-1": ["C06", "C04", "C20"], "C05b-2": ["C19"],
 "C07b-1": ["C14"], "C13b-1": ["C04"], "C15b-1": ["C06", "C04"], "C15b-2": ["C20"], "C14b-1": ["C13", "C05"],
 "C14b-2": ["C03"], "C18-1": ["C20"], "C18b-2": ["C20", "C13"], "C12b-2": ["C15", "C09"], "C13-1": ["C18"], "C05-1": ["C14"], "C07b-2": ["C14"],
}
only = set(sys.argv[1:])
out_path = "/tmp/mut_final.json"
res = json.load(open(out_path)) if os.path.exists(out_path) else {}

def run(check, tier):
    env = dict(os.environ, VERIF_SEED=os.environ.get("VERIF_SEED", "1"))
    p = subprocess.run(["/verif/check", check, "--tier", tier], capture_output=True, text=True, env=env, timeout=3000)
    txt = p.stdout + p.stderr
    if "BUILD FAILED" in txt:
        return None
    return p.returncode == 1 and "VIOLATION property=" in txt

SEEDED = "--seeded" in sys.argv  # use the kept copies under /verif/seeded instead of the scratch outputs
only = set(a for a in sys.argv[1:] if not a.startswith("--"))
patches = sorted(glob.glob("/verif/seeded/*/patch.diff")) if SEEDED else sorted(glob.glob("/tmp/mut/*/_out/patch*.diff"))
for p in patches:
    if SEEDED:
        key = p.split("/")[3]
        d0, n = key.rsplit("-", 1)
    else:
        d0 = p.split("/")[3]
        n = re.search(r"patch(\d)", p).group(1)
        key = f"{d0}-{n}"
    if only and key not in only and d0 not in only:
        continue
    if subprocess.run(["git", "-C", "/repo", "diff", "--quiet"]).returncode != 0:
        print("/repo dirty"); sys.exit(2)
    if subprocess.run(["git", "-C", "/repo", "apply", p]).returncode != 0:
        print(key, "patch does not apply"); res[key] = {"apply": False}; continue
    try:
        own = d0[:3]
        r = {}
        r[f"{own}:quick"] = run(own, "quick")
        for x in EXTRA.get(key, []):
            r[f"{x}:quick"] = run(x, "quick")
        if not any(v for v in r.values()) and not os.environ.get("NO_THOROUGH"):
            r[f"{own}:thorough"] = run(own, "thorough")
        old = res.get(key, {}) if only else {}
        old.update(r)
        res[key] = old
        print(key, r, flush=True)
    finally:
        subprocess.run(["git", "-C", "/repo", "checkout", "--", "."])
    json.dump(res, open(out_path, "w"), indent=1)
