#![no_main]
//! Component checks driven by libFuzzer: bytes are decoded (bounded, total) into the same case
//! types the proptest generators produce and run through the same model comparison.
//! VERIF_FUZZ_PROP selects C11/C12/C14/C18/C19.
use libfuzzer_sys::fuzz_target;
use vengine::comp::rejudge_fuzz_bytes;

fuzz_target!(|data: &[u8]| {
    if data.len() < 4 {
        return;
    }
    let id = std::env::var("VERIF_FUZZ_PROP").unwrap_or_else(|_| "C18".to_string());
    if let Some((case, why)) = rejudge_fuzz_bytes(&id, data) {
        eprintln!("VERIF-FUZZ-VIOLATION property={} {} case={}", id, why, case);
        std::process::abort();
    }
});
