#![no_main]
//! Coverage-guided search over the same byte-decoded cases and the same interpreter +
//! monitors as the proptest campaigns. VERIF_FUZZ_PROP selects the property (profile and
//! monitor set); a violation that is not a listed finding aborts with the property's name.
use libfuzzer_sys::fuzz_target;
use std::sync::OnceLock;
use vengine::case::RawCase;
use vengine::findings::Known;
use vengine::profiles::{spec_for, Spec};
use vengine::runner::{default_eval, judge, known_for, Evaluator, Verdict};

struct Ctx {
    spec: Spec,
    eval: Box<Evaluator>,
    known: Vec<Known>,
    is_c20: bool,
}

static CTX: OnceLock<Ctx> = OnceLock::new();

fn ctx() -> &'static Ctx {
    CTX.get_or_init(|| {
        let id = std::env::var("VERIF_FUZZ_PROP").unwrap_or_else(|_| "C20".to_string());
        let spec = spec_for(&id).expect("unknown property in VERIF_FUZZ_PROP");
        let eval = default_eval(&spec);
        let known = known_for(&id);
        let is_c20 = spec.monitors & vengine::mon::P20 != 0;
        Ctx { spec, eval, known, is_c20 }
    })
}

fuzz_target!(|data: &[u8]| {
    let c = ctx();
    if data.len() < vengine::case::RAW_SCEN + vengine::case::RAW_OP {
        return;
    }
    let raw = RawCase::from_bytes(data);
    let case = c.spec.profile.decode(&raw);
    let out = (c.eval)(&case, false);
    if let Verdict::Fail(v, sig) = judge(c.spec.id, c.is_c20, &out, &c.known) {
        eprintln!("VERIF-FUZZ-VIOLATION property={} {}/{}: {} [{}]", c.spec.id, v.property, v.monitor, v.detail, sig);
        std::process::abort();
    }
});
